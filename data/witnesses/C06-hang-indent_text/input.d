/*******************************************************************************

        @file HashMap.d

        This software is provided 'as-is', without any express or implied
        warranty. In no event will the authors be held liable for damages
        of any kind arising from the use of this software.

        Permission is hereby granted to anyone to use this software for any
        purpose, including commercial applications, and to alter it and/or
        redistribute it freely, subject to the following restrictions:

        1. The origin of this software must not be misrepresented; you must
           not claim that you wrote the original software. If you use this
           software in a product, an acknowledgment within documentation of
           said product would be appreciated but is not required.

        2. Altered source versions must be plainly marked as such, and must
           not be misrepresented as being the original software.

        3. This notice may not be removed or altered from any distribution
           of the source.

        4. Derivative works are permitted, but they must carry this notice
           in full and credit the original source.


                        ~~~~~~~~~~~~~~~~~~~~~~~~~~~~~~


        Written by Doug Lea with assistance from members of JCP JSR-166
        Expert Group and released to the public domain, as explained at
        http://creativecommons.org/licenses/publicdomain

        @version        Initial version, July 2004
        @author         Doug Lea; ported/modified by Kris

*******************************************************************************/

module mango.cache.HashMap;

/******************************************************************************

******************************************************************************/

extern (C)
{
        int memcmp (char *, char *, uint);
}


/**
 * A hash table supporting full concurrency of retrievals and
 * adjustable expected concurrency for updates. This class obeys the
 * same functional specification as {@link java.util.Hashtable}, and
 * includes versions of methods corresponding to each method of
 * <tt>Hashtable</tt>. However, even though all operations are
 * thread-safe, retrieval operations do <em>not</em> entail locking,
 * and there is <em>not</em> any support for locking the entire table
 * in a way that prevents all access.  This class is fully
 * interoperable with <tt>Hashtable</tt> in programs that rely on its
 * thread safety but not on its synchronization details.
 *
 * <p> Retrieval operations (including <tt>get</tt>) generally do not
 * block, so may overlap with update operations (including
 * <tt>put</tt> and <tt>remove</tt>). Retrievals reflect the results
 * of the most recently <em>completed</em> update operations holding
 * upon their onset.  For aggregate operations such as <tt>putAll</tt>
 * and <tt>clear</tt>, concurrent retrievals may reflect insertion or
 * removal of only some entries.  Similarly, Iterators and
 * Enumerations return elements reflecting the state of the hash table
 * at some point at or since the creation of the iterator/enumeration.
 * They do <em>not</em> throw
 * {@link ConcurrentModificationException}.  However, iterators are
 * designed to be used by only one thread at a time.
 *
 * <p> The allowed concurrency among update operations is guided by
 * the optional <tt>concurrencyLevel</tt> constructor argument
 * (default 16), which is used as a hint for internal sizing.  The
 * table is internally partitioned to try to permit the indicated
 * number of concurrent updates without contention. Because placement
 * in hash tables is essentially random, the actual concurrency will
 * vary.  Ideally, you should choose a value to accommodate as many
 * threads as will ever concurrently modify the table. Using a
 * significantly higher value than you need can waste space and time,
 * and a significantly lower value can lead to thread contention. But
 * overestimates and underestimates within an order of magnitude do
 * not usually have much noticeable impact. A value of one is
 * appropriate when it is known that only one thread will modify and
 * all others will only read. Also, resizing this or any other kind of
 * hash table is a relatively slow operation, so, when possible, it is
 * a good idea to provide estimates of expected table sizes in
 * constructors.
 *
 * <p>This class and its views and iterators implement all of the
 * <em>optional</em> methods of the {@link Map} and {@link Iterator}
 * interfaces.
 *
 * <p> Like {@link java.util.Hashtable} but unlike {@link
 * java.util.HashMap}, this class does NOT allow <tt>null</tt> to be
 * used as a key or value.
 *
 * <p>This class is a member of the
 * <a href="{@docRoot}/../guide/collections/index.html">
 * Java Collections Framework</a>.
 *
 * @since 1.5
 * @author Doug Lea
 * @param <K> the type of keys maintained by this map
 * @param <V> the type of mapped values
 */

class HashMap
{
    alias void[] K;
    alias Object V;
    alias jhash  hash;          // jhash, fnv, or walter

    /*
     * The basic strategy is to subdivide the table among Segments,
     * each of which itself is a concurrently readable hash table.
     */

    /* ---------------- Constants -------------- */

    /**
     * The default initial number of table slots for this table.
     * Used when not otherwise specified in constructor.
     */
    private const uint DEFAULT_INITIAL_CAPACITY = 16;

    /**
     * The maximum capacity, used if a higher value is implicitly
     * specified by either of the constructors with arguments.  MUST
     * be a power of two <= 1<<30 to ensure that entries are indexible
     * using ints.
     */
    private const uint MAXIMUM_CAPACITY = 1 << 30;

    /**
     * The default load factor for this table.  Used when not
     * otherwise specified in constructor.
     */
    private const float DEFAULT_LOAD_FACTOR = 0.75f;

    /**
     * The default number of concurrency control segments.
     **/
    private const uint DEFAULT_SEGMENTS = 16;

    /**
     * The maximum number of segments to allow; used to bound
     * constructor arguments.
     */
    private const uint MAX_SEGMENTS = 1 << 16; // slightly conservative


    /* ---------------- Fields -------------- */

    /**
     * Mask value for indexing into segments. The upper bits of a
     * key's hash code are used to choose the segment.
     **/
    private final int segmentMask;

    /**
     * Shift value for indexing within segments.
     **/
    private final int segmentShift;

    /**
     * The segments, each of which is a specialized hash table
     */
    private final Segment[] segments;


    /* ---------------- Small Utilities -------------- */

    /**
     * Returns a hash code for non-null Object x.
     * Uses the same hash code spreader as most other java.util hash tables.
     * @param x the object serving as a key
     * @return the hash code
     */
    private static final uint walter(K x)
    {
        uint h = typeid(char[]).getHash (&x);
        h += ~(h << 9);
        h ^=  (h >>> 14);
        h +=  (h << 4);
        h ^=  (h >>> 10);
        return h;
    }

    /**
     * Returns a hash code for non-null Object x.
     * uses the FNV hash function
     * @param x the object serving as a key
     * @return the hash code
     */
    private static final uint fnv(K x)
    {
        uint hash = 2_166_136_261;

        foreach (ubyte c; cast(ubyte[]) x)
                {
                hash ^= c;
                hash *= 16_777_619;
                }
        return hash;
    }



    /**
    * hash() -- hash a variable-length key into a 32-bit value
    *   k     : the key (the unaligned variable-length array of bytes)
    *   len   : the length of the key, counting by bytes
    *   level : can be any 4-byte value
    * Returns a 32-bit value.  Every bit of the key affects every bit of
    * the return value.  Every 1-bit and 2-bit delta achieves avalanche.
    * About 36+6len instructions.
    *
    * The best hash table sizes are powers of 2.  There is no need to do
    * mod a prime (mod is sooo slow!).  If you need less than 32 bits,
    * use a bitmask.  For example, if you need only 10 bits, do
    *   h = (h & hashmask(10));
    * In which case, the hash table should have hashsize(10) elements.
    *
    * If you are hashing n strings (ub1 **)k, do it like this:
    *   for (i=0, h=0; i<n; ++i) h = hash( k[i], len[i], h);
    *
    * By Bob Jenkins, 1996.  bob_jenkins@burtleburtle.net.  You may use this
    * code any way you wish, private, educational, or commercial.  It's free.
    *
    * See http://burlteburtle.net/bob/hash/evahash.html
    * Use for hash table lookup, or anything where one collision in 2^32 is
    * acceptable. Do NOT use for cryptographic purposes.
    */

    static final uint jhash (K x)
    {
        ubyte*  k;
        uint    a,
                b,
                c,
                len;

        len = x.length;
        k = cast(ubyte *) x;
        a = b = 0x9e3779b9;

        // the previous hash value
        c = 0;

        // handle most of the key
        while (len >= 12)
              {
              a += *cast(uint *)(k+0);
              b += *cast(uint *)(k+4);
              c += *cast(uint *)(k+8);

              a -= b; a -= c; a ^= (c>>13);
              b -= c; b -= a; b ^= (a<<8);
              c -= a; c -= b; c ^= (b>>13);
              a -= b; a -= c; a ^= (c>>12);
              b -= c; b -= a; b ^= (a<<16);
              c -= a; c -= b; c ^= (b>>5);
              a -= b; a -= c; a ^= (c>>3);
              b -= c; b -= a; b ^= (a<<10);
              c -= a; c -= b; c ^= (b>>15);
              k += 12; len -= 12;
              }

        // handle the last 11 bytes
        c += x.length;
        switch (len)
               {
               case 11: c+=(cast(uint)k[10]<<24);
               case 10: c+=(cast(uint)k[9]<<16);
               case 9 : c+=(cast(uint)k[8]<<8);
               case 8 : b+=(cast(uint)k[7]<<24);
               case 7 : b+=(cast(uint)k[6]<<16);
               case 6 : b+=(cast(uint)k[5]<<8);
               case 5 : b+=k[4];
               case 4 : a+=(cast(uint)k[3]<<24);
               case 3 : a+=(cast(uint)k[2]<<16);
               case 2 : a+=(cast(uint)k[1]<<8);
               case 1 : a+=k[0];
               default:
               }

        a -= b; a -= c; a ^= (c>>13);
        b -= c; b -= a; b ^= (a<<8);
        c -= a; c -= b; c ^= (b>>13);
        a -= b; a -= c; a ^= (c>>12);
        b -= c; b -= a; b ^= (a<<16);
        c -= a; c -= b; c ^= (b>>5);
        a -= b; a -= c; a ^= (c>>3);
        b -= c; b -= a; b ^= (a<<10);
        c -= a; c -= b; c ^= (b>>15);

        return c;
    }


    /**
     * Returns the segment that should be used for key with given hash
     * @param hash the hash code for the key
     * @return the segment
     */
    private final Segment segmentFor(uint hash)
    {
        return segments[(hash >>> segmentShift) & segmentMask];
    }

    /* ---------------- Inner Classes -------------- */

    /**
     * ConcurrentHashMap list entry. Note that this is never exported
     * out as a user-visible Map.Entry.
     *
     * Because the value field is volatile, not final, it is legal wrt
     * the Java Memory Model for an unsynchronized reader to see null
     * instead of initial value when read via a data race.  Although a
     * reordering leading to this is not likely to ever actually
     * occur, the Segment.readValueUnderLock method is used as a
     * backup in case a null (pre-initialized) value is ever seen in
     * an unsynchronized access method.
     */
    private static class HashEntry
    {
        final K         key;
        final uint      hash;
        final V         value;
        final HashEntry next;

        this (K key, uint hash, HashEntry next, V value)
        {
            this.key = key;
            this.hash = hash;
            this.next = next;
            this.value = value;
        }
    }

    /**
     * Segments are specialized versions of hash tables.  This
     * subclasses from ReentrantLock opportunistically, just to
     * simplify some locking and avoid separate construction.
     **/
    static class Segment
    {
        /*
         * Segments maintain a table of entry lists that are ALWAYS
         * kept in a consistent state, so can be read without locking.
         * Next fields of nodes are immutable (final).  All list
         * additions are performed at the front of each bin. This
         * makes it easy to check changes, and also fast to traverse.
         * When nodes would otherwise be changed, new nodes are
         * created to replace them. This works well for hash tables
         * since the bin lists tend to be short. (The average length
         * is less than two for the default load factor threshold.)
         *
         * Read operations can thus proceed without locking, but rely
         * on selected uses of volatiles to ensure that completed
         * write operations performed by other threads are
         * noticed. For most purposes, the "count" field, tracking the
         * number of elements, serves as that volatile variable
         * ensuring visibility.  This is convenient because this field
         * needs to be read in many read operations anyway:
         *
         *   - All (unsynchronized) read operations must first read the
         *     "count" field, and should not look at table entries if
         *     it is 0.
         *
         *   - All (synchronized) write operations should write to
         *     the "count" field after structurally changing any bin.
         *     The operations must not take any action that could even
         *     momentarily cause a concurrent read operation to see
         *     inconsistent data. This is made easier by the nature of
         *     the read operations in Map. For example, no operation
         *     can reveal that the table has grown but the threshold
         *     has not yet been updated, so there are no atomicity
         *     requirements for this with respect to reads.
         *
         * As a guide, all critical volatile reads and writes to the
         * count field are marked in code comments.
         */

        /**
         * The number of elements in this segment's region.
         **/
        int count;

        /**
         * The table is rehashed when its size exceeds this threshold.
         * (The value of this field is always (int)(capacity *
         * loadFactor).)
         */
        int threshold;

        /**
         * The per-segment table. Declared as a raw type, casted
         * to HashEntry<K,V> on each use.
         */
        HashEntry[] table;

        /**
         * The load factor for the hash table.  Even though this value
         * is same for all segments, it is replicated to avoid needing
         * links to outer object.
         * @serial
         */
        final float loadFactor;

        this (int initialCapacity, float lf)
        {
            loadFactor = lf;
            setTable (new HashEntry[initialCapacity]);
        }

        /**
         * Set table to new HashEntry array.
         * Call only while holding lock or in constructor.
         **/
        private final void setTable (HashEntry[] newTable)
        {
            threshold = cast(int) (newTable.length * loadFactor);
            volatile table = newTable;
        }

        /**
         * Return properly casted first entry of bin for given hash
         */
        private final HashEntry getFirst (uint hash)
        {
            HashEntry[] tab;

            volatile tab = table;
            return tab [hash & (tab.length - 1)];
        }

        /**
         * Return true if the two keys match
         */
        private static final bool matchKey (K a, K b)
        {
                if (a.length == b.length)
                    return cast(bool) (memcmp (cast(char*) a, cast(char*) b, a.length) == 0);
                return false;
        }

        /* Specialized implementations of map methods */

        final V get (K key, uint hash)
        {
            int c;

            // read-volatile
            volatile c = count;
            if (c)
               {
               HashEntry e = getFirst (hash);
               while (e)
                     {
                     if (hash == e.hash && matchKey (key, e.key))
                        {
                        V v;
                        volatile v = e.value;
                        if (v)
                            return v;

                        synchronized (this)
                                      return e.value;
                        }
                     e = e.next;
                     }
               }
            return null;
        }


        final bool containsKey (K key, uint hash)
        {
            int c;

            // read-volatile
            volatile c = count;
            if (c)
               {
               HashEntry e = getFirst (hash);
               while (e)
                     {
                     if (e.hash == hash && matchKey (key, e.key))
                         return true;
                     e = e.next;
                     }
               }
            return false;
        }



        final synchronized V replace (K key, uint hash, V newValue)
        {
                HashEntry e = getFirst(hash);
                while (e && (e.hash != hash || !matchKey (key, e.key)))
                       e = e.next;

                V oldValue = null;
                if (e)
                    volatile
                           {
                           oldValue = e.value;
                           e.value = newValue;
                           }
                return oldValue;
        }


        final synchronized V put (K key, uint hash, V value, bool onlyIfAbsent)
        {
                int c;

                volatile c = count;
                if (c++ > threshold)
                    rehash();

                HashEntry[] tab;
                volatile tab = table;
                uint index = hash & (tab.length - 1);
                HashEntry first = tab[index];
                HashEntry e = first;

                while (e && (e.hash != hash || !matchKey (key, e.key)))
                       e = e.next;

                V oldValue;
                if (e)
                   {
                   volatile oldValue = e.value;
                   if (!onlyIfAbsent)
                        volatile e.value = value;
                   }
                else
                   {
                   oldValue = null;
                   tab[index] = new HashEntry (key, hash, first, value);

                   // write-volatile
                   volatile count = c;
                   }
                return oldValue;
        }


        private final void rehash ()
        {
            HashEntry[] oldTable;

            volatile oldTable = table;
            int oldCapacity = oldTable.length;
            if (oldCapacity >= MAXIMUM_CAPACITY)
                return;

            /*
             * Reclassify nodes in each list to new Map.  Because we are
             * using power-of-two expansion, the elements from each bin
             * must either stay at same index, or move with a power of two
             * offset. We eliminate unnecessary node creation by catching
             * cases where old nodes can be reused because their next
             * fields won't change. Statistically, at the default
             * threshold, only about one-sixth of them need cloning when
             * a table doubles. The nodes they replace will be garbage
             * collectable as soon as they are no longer referenced by any
             * reader thread that may be in the midst of traversing table
             * right now.
             */

            HashEntry[] newTable = new HashEntry[oldCapacity << 1];
            threshold = cast(int) (newTable.length * loadFactor);
            int sizeMask = newTable.length - 1;

            for (int i = 0; i < oldCapacity ; ++i)
                {
                // We need to guarantee that any existing reads of old Map can
                //  proceed. So we cannot yet null out each bin.
                HashEntry e = oldTable[i];

                if (e)
                   {
                   HashEntry next = e.next;
                   uint idx = e.hash & sizeMask;

                   //  Single node on list
                   if (next is null)
                       newTable[idx] = e;
                   else
                      {
                      // Reuse trailing consecutive sequence at same slot
                      HashEntry lastRun = e;
                      int lastIdx = idx;
                      for (HashEntry last=next; last; last = last.next)
                          {
                          uint k = last.hash & sizeMask;
                          if (k != lastIdx)
                             {
                             lastIdx = k;
                             lastRun = last;
                             }
                          }
                      newTable[lastIdx] = lastRun;

                      // Clone all remaining nodes
                      for (HashEntry p = e; p !is lastRun; p = p.next)
                          {
                          uint k = p.hash & sizeMask;
                          HashEntry n = newTable[k];
                          newTable[k] = new HashEntry(p.key, p.hash, n, p.value);
                          }
                      }
                   }
                }
            volatile table = newTable;
        }

        /**
         * Remove; match on key only if value null, else match both.
         */
        {
                int c;
                HashEntry[] tab;

                volatile c = count - 1;
                volatile tab = table;

                uint index = hash & (tab.length - 1);
                HashEntry first = tab[index];
                HashEntry e = first;

                while (e && (e.hash != hash || !matchKey (key, e.key)))
                       e = e.next;

                V oldValue = null;
                if (e)
                   {
                   V v;
                   volatile v = e.value;
                   if (value is null || value == v)
                      {
                      oldValue = v;

                      // All entries following removed node can stay
                      // in list, but all preceding ones need to be
                      // cloned.
                      HashEntry newFirst = e.next;
                      for (HashEntry p = first; p !is e; p = p.next)
                           newFirst = new HashEntry (p.key, p.hash, newFirst, p.value);
                      tab[index] = newFirst;

                      // write-volatile
                      volatile count = c;
                      }
                   }
                return oldValue;
        }


        final synchronized void clear()
        {
            if (count)
               {
                   HashEntry[] tab;
                   volatile tab = table;

                   for (int i = 0; i < tab.length ; i++)
                        tab[i] = null;

                   // write-volatile
                   volatile count = 0;
               }
        }
    }



    /* ---------------- Public operations -------------- */

    /**
     * Creates a new, empty map with the specified initial
     * capacity and the specified load factor.
     *
     * @param initialCapacity the initial capacity. The implementation
     * performs internal sizing to accommodate this many elements.
     * @param loadFactor  the load factor threshold, used to control resizing.
     * @param concurrencyLevel the estimated number of concurrently
     * updating threads. The implementation performs internal sizing
     * to try to accommodate this many threads.
     * @throws IllegalArgumentException if the initial capacity is
     * negative or the load factor or concurrencyLevel are
     * nonpositive.
     */
    public this (uint initialCapacity, float loadFactor, uint concurrencyLevel)
    {
        assert (loadFactor > 0);

        if (concurrencyLevel > MAX_SEGMENTS)
            concurrencyLevel = MAX_SEGMENTS;

        // Find power-of-two sizes best matching arguments
        int sshift = 0;
        int ssize = 1;
        while (ssize < concurrencyLevel)
              {
              ++sshift;
              ssize <<= 1;
              }

        segmentShift = 32 - sshift;
        segmentMask = ssize - 1;
        this.segments = new Segment[ssize];

        if (initialCapacity > MAXIMUM_CAPACITY)
            initialCapacity = MAXIMUM_CAPACITY;

        int c = initialCapacity / ssize;
        if (c * ssize < initialCapacity)
            ++c;

        int cap = 1;
        while (cap < c)
               cap <<= 1;

        for (int i = 0; i < this.segments.length; ++i)
             this.segments[i] = new Segment (cap, loadFactor);
    }

    /**
     * Creates a new, empty map with the specified initial
     * capacity,  and with default load factor and concurrencyLevel.
     *
     * @param initialCapacity The implementation performs internal
     * sizing to accommodate this many elements.
     * @throws IllegalArgumentException if the initial capacity of
     * elements is negative.
     */
    public this (uint initialCapacity)
    {
        this(initialCapacity, DEFAULT_LOAD_FACTOR, DEFAULT_SEGMENTS);
    }

    /**
     * Creates a new, empty map with a default initial capacity,
     * load factor, and concurrencyLevel.
     */
    public this ()
    {
        this(DEFAULT_INITIAL_CAPACITY, DEFAULT_LOAD_FACTOR, DEFAULT_SEGMENTS);
    }

    /**
     * Returns the value to which the specified key is mapped in this table.
     *
     * @param   key   a key in the table.
     * @return  the value to which the key is mapped in this table;
     *          <tt>null</tt> if the key is not mapped to any value in
     *          this table.
     * @throws  NullPointerException  if the key is
     *               <tt>null</tt>.
     */
    public V get (K key)
    {
        uint hash = hash(key); // throws NullPointerException if key null
        return segmentFor(hash).get(key, hash);
    }

    /**
     * Tests if the specified object is a key in this table.
     *
     * @param   key   possible key.
     * @return  <tt>true</tt> if and only if the specified object
     *          is a key in this table, as determined by the
     *          <tt>equals</tt> method; <tt>false</tt> otherwise.
     * @throws  NullPointerException  if the key is
     *               <tt>null</tt>.
     */
    public bool containsKey (K key)
    {
        uint hash = hash(key); // throws NullPointerException if key null
        return segmentFor(hash).containsKey(key, hash);
    }

    /**
     * Maps the specified <tt>key</tt> to the specified
     * <tt>value</tt> in this table. Neither the key nor the
     * value can be <tt>null</tt>.
     *
     * <p> The value can be retrieved by calling the <tt>get</tt> method
     * with a key that is equal to the original key.
     *
     * @param      key     the table key.
     * @param      value   the value.
     * @return     the previous value of the specified key in this table,
     *             or <tt>null</tt> if it did not have one.
     * @throws  NullPointerException  if the key or value is
     *               <tt>null</tt>.
     */
    public V put (K key, V value)
    {
        assert (value);

        uint hash = hash(key);
        return segmentFor(hash).put(key, hash, value, false);
    }

    /**
     * If the specified key is not already associated
     * with a value, associate it with the given value.
     * This is equivalent to
     * <pre>
     *   if (!map.containsKey(key))
     *      return map.put(key, value);
     *   else
     *      return map.get(key);
     * </pre>
     * Except that the action is performed atomically.
     * @param key key with which the specified value is to be associated.
     * @param value value to be associated with the specified key.
     * @return previous value associated with specified key, or <tt>null</tt>
     *         if there was no mapping for key.
     * @throws NullPointerException if the specified key or value is
     *            <tt>null</tt>.
     */
    public V putIfAbsent (K key, V value)
    {
        assert (value);

        uint hash = hash(key);
        return segmentFor(hash).put(key, hash, value, true);
    }


    /**
     * Removes the key (and its corresponding value) from this
     * table. This method does nothing if the key is not in the table.
     *
     * @param   key   the key that needs to be removed.
     * @return  the value to which the key had been mapped in this table,
     *          or <tt>null</tt> if the key did not have a mapping.
     * @throws  NullPointerException  if the key is
     *               <tt>null</tt>.
     */
    public V remove (K key)
    {
        uint hash = hash(key);
        return segmentFor(hash).remove(key, hash, null);
    }

    /**
     * Remove entry for key only if currently mapped to given value.
     * Acts as
     * <pre>
     *  if (map.get(key).equals(value)) {
     *     map.remove(key);
     *     return true;
     * } else return false;
     * </pre>
     * except that the action is performed atomically.
     * @param key key with which the specified value is associated.
     * @param value value associated with the specified key.
     * @return true if the value was removed
     * @throws NullPointerException if the specified key is
     *            <tt>null</tt>.
     */
    public bool remove (K key, V value)
    {
        uint hash = hash(key);
        return cast(bool) (segmentFor(hash).remove(key, hash, value) !is null);
    }


    /**
     * Replace entry for key only if currently mapped to some value.
     * Acts as
     * <pre>
     *  if ((map.containsKey(key)) {
     *     return map.put(key, value);
     * } else return null;
     * </pre>
     * except that the action is performed atomically.
     * @param key key with which the specified value is associated.
     * @param value value to be associated with the specified key.
     * @return previous value associated with specified key, or <tt>null</tt>
     *         if there was no mapping for key.
     * @throws NullPointerException if the specified key or value is
     *            <tt>null</tt>.
     */
    public V replace (K key, V value)
    {
        assert (value);

        uint hash = hash(key);
        return segmentFor(hash).replace(key, hash, value);
    }


    /**
     * Removes all mappings from this map.
     */
    public void clear ()
    {
        for (int i = 0; i < segments.length; ++i)
             segments[i].clear();
    }


    /**
     * Returns an enumeration of the keys in this table.
     *
     * @return  an enumeration of the keys in this table.
     * @see     #keySet
     */
    public KeyIterator keys ()
    {
        return new KeyIterator (this);
    }

    /**
     * Returns an enumeration of the values in this table.
     *
     * @return  an enumeration of the values in this table.
     * @see     #values
     */
    public ValueIterator elements ()
    {
        return new ValueIterator (this);
    }

        /**********************************************************************

                Iterate over all keys in hashmap

        **********************************************************************/

        int opApply (int delegate(inout char[]) dg)
        {
                int result = 0;
                KeyIterator iterator = keys ();

                while (iterator.hasNext)
                      {
                      char[] ca = cast(char[]) iterator.next;
                      if ((result = dg (ca)) != 0)
                           break;
                      }
                return result;
        }

        /**********************************************************************

                Iterate over all keys in hashmap

        **********************************************************************/

        int opApply (int delegate(inout char[], inout Object) dg)
        {
                int result = 0;
                KeyIterator iterator = keys ();

                while (iterator.hasNext)
                      {
                      HashEntry he = iterator.nextElement;
                      char[] ca = cast(char[]) he.key;
                      if ((result = dg (ca, he.value)) != 0)
                           break;
                      }
                return result;
        }


    /* ---------------- Iterator Support -------------- */

    abstract static class HashIterator
    {
        int nextSegmentIndex;
        int nextTableIndex;
        HashEntry[] currentTable;
        HashEntry nextEntry;
        HashEntry lastReturned;
        HashMap   map;

        this (HashMap map)
        {
            this.map = map;
            nextSegmentIndex = map.segments.length - 1;
            nextTableIndex = -1;
            advance();
        }

        final void advance ()
        {
            if (nextEntry !is null && (nextEntry = nextEntry.next) !is null)
                return;

            while (nextTableIndex >= 0)
                  {
                  if ( (nextEntry = currentTable[nextTableIndex--]) !is null)
                        return;
                  }

            while (nextSegmentIndex >= 0)
                  {
                  Segment seg = map.segments[nextSegmentIndex--];
                  volatile if (seg.count)
                     {
                     currentTable = seg.table;
                     for (int j = currentTable.length - 1; j >= 0; --j)
                         {
                         if ((nextEntry = currentTable[j]) !is null)
                            {
                            nextTableIndex = j - 1;
                            return;
                            }
                         }
                     }
                  }
        }

        public bool hasNext ()
        {
            return cast(bool) (nextEntry !is null);
        }

        HashEntry nextElement ()
        {
            if (nextEntry is null)
                throw new Exception ("no such element in HashMap");

            lastReturned = nextEntry;
            advance ();
            return lastReturned;
        }
    }

    static class KeyIterator : HashIterator
    {
        this (HashMap map) {super (map);}
        public K next() { return super.nextElement().key; }
    }

    static class ValueIterator : HashIterator
    {
        this (HashMap map) {super (map);}
        public V next() { volatile return super.nextElement().value; }
    }

}
