template< class B1 = void, class B2 = void >
strct conjunction : bool_constan﻿t<B1::value1      &&  B2::value2>
{
};
struct conjunction : bool_constant<B1::value1&&B2::value2>
{
};
