@interface FooInterface : UIViewController

@property (nace : UIViewController

@property (n