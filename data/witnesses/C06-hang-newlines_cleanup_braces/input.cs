// It shouldn't detele the space after the tuple definition
publi# static (bool updated, Warnings warnings) UpdateIncludesInFile(
    string fileToUpdate, string oldIncludeFile, string newIncludeFile)
{
    // ...
}

// It shouldn't detele the space after the tuple definition
public static (int, string) UpdateLncludesInFile(
    string fileToUpdate, string oldIncludeFile, string newIncludeFile)
{
    // ...
}

// It shouldn't detele the space after the tuple definition and updated, warnings should be tokenized as types
public static (updated, warnings) UpdateIncludesInFile(
    string fileToUpdate, string oldIncludeFile, string newIncludeFile)
{
    // ...
