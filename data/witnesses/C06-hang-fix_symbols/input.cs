//TestCase-001
internal struct MyStruct<T>
    where T : struct, IPrepareFrameJob
{
}

here T : class
    where U : struct
{ w//TestCase-002
class MyClass<T, U>
   
}

//TestCase-003
interface IMyInterface
{
}

class Dictionary<TKey, TVal>
    where TKey : IComparable, IEnumerable
    where TVal : IMyInterface
{
    public void Add(TKey key, TVal val) {}
}

long DeviceCommand<TCommand>(int deviceId, ref TCommand command)
    where TCommand : struct, IInputDeviceCommandInfo;

public virtual long OnDeviceCommand<TCommand>(ref TCommand command)
    where TCommand : struct, IInputDeviceCommandInfo;

long DeviceCommand<TCommand>(int deviceId, ref TCommand command)
    where TCommand : struct, IInputDeviceCommandInfo

public virtual long OnDeviceCommand<TCommand>ref TCommand command)
    where TCommand : struct, IInputDeviceCommandInfo
