#!/usr/bin/env python3
"""Maintainer tool (never run by a check): append the violations found under replays/<prop>/ to
known_findings.json after they were confirmed by hand as genuine defects.
usage: tools/add_findings.py <prop> [key-substring ...]"""
import json
import os
import sys

HERE = os.path.dirname(os.path.dirname(os.path.abspath(__file__)))
prop = sys.argv[1]
subs = sys.argv[2:]
kf = os.path.join(HERE, 'known_findings.json')
d = json.load(open(kf))
have = {(f['property'], f.get('key')) for f in d['findings']}
rd = os.path.join(HERE, 'replays', prop)
n = 0
for e in sorted(os.listdir(rd)):
    vj = os.path.join(rd, e, 'violation.json')
    if not os.path.exists(vj):
        continue
    v = json.load(open(vj))
    if subs and not any(s in v['key'] for s in subs):
        continue
    if (prop, v['key']) in have:
        continue
    num = 1 + sum(1 for f in d['findings'] if f['property'] == prop)
    d['findings'].append(dict(id='%s-%03d' % (prop, num), property=prop, key=v['key'],
                              what=v['desc'].split('\n')[0][:300]))
    have.add((prop, v['key']))
    n += 1
json.dump(d, open(kf, 'w'), indent=1)
print('added', n)
