#!/usr/bin/env python3
"""Regenerate MANIFEST.json from the table below (kept in one place so it stays valid)."""
import json
import os
import subprocess

HERE = os.path.dirname(os.path.dirname(os.path.abspath(__file__)))

HOOK_COMMITS = ['e2a9968']

CHECKS = {
    'C06': dict(level='exploration',
                technique='runtime monitoring under AddressSanitizer+UBSan: process-exit oracle (status/signal/CPU clock/stdout-on-error) over fixed mutation universes',
                text='Every selected member of four fixed finite input universes (line truncations, mid-token cuts, indexed mutants, file x language) is run as a fresh ASan+UBSan process; the oracle observes signal, sanitizer log, exit status, CPU-time limit, stdout on error and the diagnostic. Held on the executions listed in the evidence, nothing more. Fixed families in every run: malformed endings x every value of every option of the family that processes the construct (comment, string, directive incl. conditionals whose alternatives end on different brace levels, block), 21 bare statement fragments that are the whole file x every newline option, and generated valid programs under joint draws. Hang keys name the pass, the function the pass was in and - one option away from the defaults - the option.',
                note='Trusted: ASan/UBSan red-zone and UB detection on executed paths; RLIMIT_CPU as logical clock (60 s asan, confirmed 20 s plain); gdb for the root-cause locus of findings.',
                design='DESIGN.md §2 C06'),
}

CHECKS['C05'] = dict(level='exploration',
    technique='runtime monitoring: metamorphic fixed-point oracle F(F(x))==F(x) and --check over an enumerated file x profile universe',
    text='Every (C/C++ corpus file, curated profile) pair of the fixed universe (quick: seeded 40 % slice; thorough: all) is formatted twice by the real binary and the two outputs compared byte for byte; --check is run on the first output; unstable pairs of the pinned tree are listed individually in known_findings.json. The weaker second-pass-accepted claim is observed on the test-suite (config, input) pairs of all languages. Fixed families on top: generated programs with nine comment shapes x profiles (root-cause keys), hand-written mod-shape hosts x profiles, and a trailing-comment sweep (comment at columns 2..30 x continuation comment line at offsets -3..+3 x profiles) whose unstable members on the pinned tree are listed exactly.',
    note='Trusted: determinism of the binary (monitored by C10). Profiles are etc/ styles plus three pinned overrides (profiles/derive.py).',
    design='DESIGN.md §2 C05')
CHECKS['C10'] = dict(level='exploration',
    technique='runtime monitoring: differential oracle across delivery modes, observer options, environments, ASLR, asan binary, plus valgrind memcheck on a sample',
    text='For each sampled (corpus file, config) about 45 executions of the real binary (12 delivery/output modes with and without -l, 10 observer option sets, 7 environments, ASLR off, repeat, other cwd, ASan build, valgrind memcheck sample) must give the reference bytes and status and create only the documented files (directory snapshots).',
    note='Trusted: file name held constant across modes; locales limited to those installed.',
    design='DESIGN.md §2 C10')

CHECKS['C08'] = dict(level='exploration',
    technique='runtime monitoring: metamorphic oracles over terminator conversion (purity, substitution, commutation, census majority) on real executions',
    text='Per (corpus file, base config) ~17 executions: output under lf/crlf/cr must contain only that terminator, crlf/cr outputs must be the lf output with terminators substituted, formatting the CRLF/CR/mixed conversions of the input must give the same bytes, and newlines=auto must follow the majority the tokenizer can count (T dump census). Known lone-CR defects are keyed by the construct the break lies in. In every run: three hand-written hosts (disabled span inside one comment, region between comments and #pragma asm, line breaks inside macros, comments and raw strings) and every corpus file with a disabled region, under every base config.',
    note='Trusted: T dump newline census for the auto clause; UTF-16 inputs are left to C09.',
    design='DESIGN.md §2 C08')
CHECKS['C11'] = dict(level='exploration',
    technique='runtime monitoring: differential oracle batch-vs-single over ordered poisoner/victim pairs and seeded file sequences',
    text='Ordered pairs (31 hand-written state-poisoning files x victims) and seeded sequences of 3..12 files are run as one invocation (positional, -F list, mixed; with and without -l) and every member output is compared byte for byte with its single-invocation output; exit status and created files are compared too.',
    note='Trusted: single-invocation runs as reference (C10 monitors their determinism).',
    design='DESIGN.md §2 C11')
CHECKS['C12'] = dict(level='exploration',
    technique='runtime monitoring: ground-truth oracle for --check/--if-changed with directory snapshots (inode, size, mtime, ctime, mode, bytes)',
    text='For each (corpus file, config): the file, its formatted version and 10 one-byte/size/terminator/BOM perturbations are given to --check singly and in batches; exit status and PASS/FAIL lines are compared with the truth from a normal run, the directory snapshot must be unchanged; --if-changed is run in 5 output modes and must write nothing for reproduced files and exactly the normal bytes otherwise. Inputs whose byte count differs from their character count are in every run: all corpus files with non-ASCII bytes under every config and ASCII files behind a multi-byte comment; one config inserts a header/footer with characters above U+00FF.',
    note='Trusted: a normal -f run as ground truth (tied to the other modes by C10).',
    design='DESIGN.md §2 C12')

CHECKS['C09'] = dict(level='exploration',
    technique='runtime monitoring: transcoding-commutation oracle over an exhaustive Unicode scalar sweep, transcoded corpus, option table and invalid sequences',
    text='All 1,112,064 scalar values (thorough; quick: seeded 1/8 + boundary blocks) are placed in a block comment, a // comment, string literals and identifiers, formatted by the real binary in UTF-8, UTF-8+BOM, UTF-16LE and UTF-16BE, and the outputs must be the transcodings of one another with the scalar sequence unchanged; corpus texts are transcoded likewise; the utf8_bom x utf8_force x input-encoding table is compared with the documented outcome; 21 invalid byte sequences in 4 positions must be refused or passed through byte-identically. Thirteen tiny documents (empty, one line break, one token, one non-ASCII character ...) must commute with transcoding as well (a file that is nothing but its BOM is the encoding of the empty document).',
    note='Trusted: Python codecs as the reference transcoder.',
    design='DESIGN.md §2 C09')
CHECKS['C13'] = dict(level='fault_enumeration',
    technique='fault injection on the real binary: strace SIGKILL at every syscall and error injection at every file syscall (singly, pairs), RLIMIT_FSIZE short writes; file-system snapshot oracle',
    text='Per scenario (6 in-place modes/path spellings x needs/formatted/fails/shrinks/empty/blank x prior backup state x 3 sizes) a reference strace lists every syscall after the first touch of the source; every one is visited as a crash point (SIGKILL on entry) and every file syscall as a fault point (ENOSPC/EACCES/EIO), plus sampled fault pairs and real short writes via RLIMIT_FSIZE; after each run the directory snapshot must show the complete original or the complete formatted text, an intact backup when required, and a non-zero status for any failure. Exhaustive per scenario for single points. Source states include a zero-length and a one-line-break file under a configuration that inserts a header; path spellings include \'./name\'.',
    note='Trusted: strace injection ((INJECTED) marks are counted); atomicity of rename(2) and durability are the kernel\'s.',
    design='DESIGN.md §2 C13')

CHECKS['C14'] = dict(level='exploration',
    technique='runtime monitoring of histories: exhaustive bounded enumeration of user-write/--replace/kill histories against the real binary with protocol invariants checked on the directory after every step',
    text='All histories up to length 4 (quick) / 5 (thorough) over {4 user writes, --replace with config A/B, with/without --if-changed}, plus histories with one run killed by strace SIGKILL at every syscall of its window, are executed against the real binary; after each step the backup must hold the last user text whenever uncrustify changed the file, and the md5 file must describe the content left in the file. The shortest violating history is reported. Violations after a killed run are keyed by what followed it (another run, a byte-identical write, an edit).',
    note='Trusted: the invariants are the statement clauses; a byte-identical user write does not start a new epoch (DESIGN.md §4).',
    design='DESIGN.md §2 C14')

CHECKS['C15'] = dict(level='exploration',
    technique='runtime monitoring: round-trip oracle (load, dump, reload, dump) over an exhaustive option x value-class sweep, spelling/reference equivalence and behavioural equality',
    text='Every option at every enumerated/boundary/interior value and 24 hostile string values is loaded by the real binary, dumped with --update-config, reloaded and dumped again (idempotence, no warnings, with-doc agreement); 11 spellings and --set per option, option references incl. inverted ones, directive kinds with 1..5 arguments and the whole test-suite configs are compared through the dump and through formatting with the original vs the dumped config.',
    note='Trusted: the --update-config dump as the observable of loaded values.',
    design='DESIGN.md §2 C15')
CHECKS['C16'] = dict(level='exploration',
    technique='runtime monitoring under AddressSanitizer+UBSan: diagnostic/no-effect oracle over an exhaustive option x bad-value-class sweep, hostile and mutated config files, strace for the nl_max clause',
    text='For every option every bad-value class (out of range, 32/64-bit overflow, wrong type, dangling or wrong-type reference, unknown name, bad quoting) is inserted into a valid base config: stderr must name file, line and option, and the dump must equal the base dump; 46 hostile files and mutated test configs must not crash, hang or trigger a sanitizer; nl_max against every blank-line count option must exit EX_CONFIG without the source being opened (strace).',
    note='Trusted: ASan/UBSan on executed paths; the dump as observable of option values.',
    design='DESIGN.md §2 C16')

CHECKS['C02'] = dict(level='exploration',
    technique='runtime monitoring with the chunk-dump hook: token-stream oracles (character stream + directive flags from T dumps, independent lexer, own tokenizer re-lex) over corpus x whitespace configs, fixed mutant/joint universes and a token-pair table',
    text='Each case formats an input with a whitespace-only configuration and re-lexes the output: the non-comment character stream and per-character directive flags (hook dumps), the token boundaries by an independent lexer written from the language standards (C, C++, ObjC, Java, C# precise; D, Vala, Pawn, ECMA generic) and uncrustify\'s own tokenizer must agree between input and output. Workloads: corpus x 13 curated configs, 40k joint whitespace draws and 20k (file, test config) pairs as fixed universes, 10k byte mutants, and every ordered pair of 56 token classes under all sp_=remove/force. Directives: \'#ifdef/#endif\' pairs injected around seeded line ranges of corpus files, and 33 one-construct units whose lines are separated by \'#pragma\' lines under every newline add/remove and pos_ option singly at every value (a token moved across a directive changes the stream).',
    note='Trusted: the T-stage dump hook is passive (C10 checks output equality with hooks on); the independent lexer is authoritative only on well-lexed input.',
    design='DESIGN.md §2 C02')

CHECKS['C03'] = dict(level='exploration',
    technique='runtime monitoring with the chunk-dump hook: comment normal-form and literal byte-equality oracles (independent lexer + T dumps) over corpus, a fixed universe of comment/literal injections and joint whitespace draws',
    text='For each case the list of comments (in the normal form the statement allows) and the list of string/char/raw/include literals (raw bytes) of the input and of the formatted output are compared, by an independent lexer and by uncrustify\'s own T-stage dumps. Workloads: corpus x 13 curated whitespace configs, 8k injections of 23 comment shapes and hostile literals at random token boundaries (incl. inside directives, backslash-continued //, tabs, non-ASCII, raw strings with line breaks), 20k joint whitespace draws.',
    note='Trusted: the independent lexer on well-lexed input; for other inputs a difference needs the lexer and the dumps to agree.',
    design='DESIGN.md §2 C03')

CHECKS['C07'] = dict(level='exploration',
    technique='runtime monitoring: region-bytes oracle (lines between sentinel-carrying marker lines, input vs output) and opacity oracle (same host, other region text, output outside the region compared) over hosts x marker styles x hostile bodies x configurations',
    text='A disabled region (8 marker styles: block, //, doxygen, indented, trailing blanks, custom text, regex, #pragma asm) with one of 23 hostile bodies (other languages, unbalanced brackets, tabs/trailing blanks, blank-line runs, non-ASCII and invalid UTF-8, marker look-alikes, comment/string openers, directives, 5000-column line, control characters) is inserted before every line of 9 hand-written hosts (one per language) and at seeded lines of corpus files, terminated or running to end of file; corpus files are also wrapped whole. Each case is formatted under 13 curated configs (mod add/remove, blank-line, align, width, comment, indent, all sp_/nl_) or joint draws over whitespace+mod+comment options; the region lines of the output must equal the inserted ones, and replacing the region text by another body of the same shape must leave every byte outside the region unchanged. Regions running to the end of the file are tried with and without a final line terminator; two bodies hold the enable text inside literals and after code on a region line.',
    note='Trusted: region extraction by sentinel words in the marker comments; a marker comment that a comment-reflow option spreads over several lines is not judged (counted).',
    design='DESIGN.md §2 C07')

CHECKS['C17'] = dict(level='exploration',
    technique='runtime monitoring: per-line predicates on the output classified by an independent lexer (trailing blanks, tab/space discipline of leading whitespace by indent_with_tabs / pp_indent_with_tabs, end-of-file policy) over hostile re-layouts of the corpus x tab/indent/align option draws',
    text='Corpus files of all nine languages, 70 % of them re-laid-out with hostile whitespace (space/tab mixes in front, trailing blanks, whitespace-only lines, tabs between tokens; token stream checked unchanged), are formatted under the complete indent_with_tabs x indent_columns x output_tab_size grid (fixed core) and seeded draws of tab/indent/align/pp/eof options, joint whitespace draws and curated configs (fixed universe of 80k cases; quick: 15k). Every output line that starts outside a comment/literal is judged: no trailing blank where the line ends outside a comment/literal; no tab in the leading whitespace with indent_with_tabs=0; no space before a tab with 1 or 2; directive lines by pp_indent_with_tabs; the end of file by nl_end_of_file/nl_end_of_file_min. Whitespace-only lines are judged by indent_with_tabs when indent_single_newlines=true; three hosts with directives inside nested blocks followed by blank lines run over the whole (indent_with_tabs x pp_indent_with_tabs x indent_single_newlines x indent_columns x output_tab_size x pp_indent) grid. Two macro hosts whose lines end in blanks run under all 32 combinations of the five lexer-altering options.',
    note='Trusted: the independent lexer for the line classification (inputs/outputs it does not lex cleanly are counted and not judged).',
    design='DESIGN.md §2 C17')
CHECKS['C20'] = dict(level='exploration',
    technique='runtime monitoring: run-length oracle over line breaks of the lexer-classified output (nl_max bound, start/end-of-file counts, blank lines next to braces) over corpus files with injected blank-line runs x drawn blank-line configurations',
    text='Corpus files of all nine languages with runs of 0..6 blank lines injected before lines that start outside comments/literals/directives and at file start/end (token stream checked unchanged) are formatted under: nl_max 0..6 x nl_start_of_file at all four values x minima (fixed core), and a fixed universe of 90k drawn configs (quick: 12k) over nl_max 1..6 with blank-line count options <= nl_max and other newline options, the start/end options x minima 0..3, and eat_blanks_*. The output must contain no run of more than nl_max line breaks between tokens outside comments/literals (when no count option asks for more), exactly/at least the prescribed line breaks before the first and after the last token, and no blank line after a line-ending "{" / before a line-starting "}" under eat_blanks_*. Every newline add/remove option and every pos_ option singly at every value, with nl_max=2 and eat_blanks_* on, over 55 one-construct units in which the token the option moves sits next to a comment and a blank line (a second change in the same pass would hide a leftover).',
    note='Trusted: the independent lexer for the line classification; the eat_blanks clause is judged whatever the other options say; count options that win against it on the pinned tree are listed findings.',
    design='DESIGN.md §2 C20')

CHECKS['C19'] = dict(level='exploration',
    technique='runtime monitoring with the SPACE and DUMP hooks: every spacing decision record (rule names logged, raw and final value, forced flag) is joined with the blanks measured between the two tokens in the output bytes and with the configured value of the rule named',
    text='Every one of the 258 IARF sp_ options is set singly to each of ignore/add/remove/force (exhaustive over options x values) on corpus files where its rule fires under defaults and on nine hand-written hosts; a 6-config pairwise-separating family (each option a distinct code word of minimum distance 2, so any two options differ in at least two configs) and seeded joint draws are run over seeded corpus files. For every record whose last logged rule is a user option and whose tokens are adjacent on one output line (tokens located in the output bytes by a sequential scan of the O dump): remove gives no blank unless the junction would lex differently (decided by the independent lexer, two identifier characters, digraphs) or the rule is one the statement names (return/case operand, macro body); force gives exactly min_sp (1) blanks; add at least one; ignore keeps presence as in the input (tokens neighbours in the T dump); and the raw decision equals the value configured for the very rule named (decorations such as "/FORCE" and "| ADD" are honoured as logged). A further family leaves the Qt SIGNAL/SLOT override at its default (on) over a Qt host and the corpus files with such macros: pairs inside the macros are skipped, everything after a macro must obey the configured values again. The C and C++ hosts include a function with embedded block comments directly in front of operators, casts, arguments and semicolons.',
    note='Trusted: the SPACE hook reports what log_rule() is given and what space_text() decides (C10 checks that hooks do not change the output); trailing comments, Qt macro arguments and pairs not attributed to a user option are counted, not judged.',
    design='DESIGN.md §2 C19')

CHECKS['C18'] = dict(level='exploration',
    technique='runtime monitoring: metamorphic re-indentation invariance (leading whitespace of statement-start output lines unchanged when every input line is re-indented) and a reference model (closed-form column from the generator\'s own nesting) over generated block-structured programs and corpus files',
    text='Grammar-generated C/C++/Java programs (one statement, brace or label per line; if/else chains, braceless bodies, for/while/do-while, switch/case with fall-through, bare blocks, namespaces, classes, own-line comments; nesting up to level 9; brace placement mixed per construct; input indentation random per line) from a fixed universe of 50k programs. Closed form: every output line must start at (brace depth + braceless nesting + enclosing case labels) x indent_columns + enclosing switches x indent_switch_case (+ indent_columns inside a namespace/class with indent_namespace/indent_class), closing braces at the column of the statement that opened the block, for indent_columns 1..16 x indent_with_tabs 0..2 x output_tab_size {2,3,4,8}, with random sp_ options that must be irrelevant. Invariance: 3 re-indentations of every line of a generated program, and 2 re-indentations of the statement-start lines of corpus files (all languages), must leave the leading whitespace of every judged output line unchanged, under model options and joint draws of options not documented to keep original columns. Comment invariance: comments injected between lines and at line ends of generated programs and of nine hand-written hosts (braced cases, lambdas/blocks as arguments, one-liners) must not change the leading whitespace of any code line. Consistency: siblings, chain arms and brace pairs under 17 brace-style options. Preprocessor alternatives: in conditionals with 2..4 alternatives (each opening a block that is closed after #endif, or balanced) every alternative must be laid out as in the program that holds it alone.',
    note='Trusted: the generator\'s own nesting bookkeeping as the expected depth (the O dump is not used); the closed form was calibrated on the pinned tree (0 disagreements in 565k lines) and is frozen in vf/props/c18.py expected_width().',
    design='DESIGN.md §2 C18')

CHECKS['C04'] = dict(level='exploration',
    technique='runtime monitoring: allowed-edit residual oracle on the independent lexer\'s token streams (tokens of the kinds the enabled mod_ options name removed from both streams, the rest must be identical; line groups as multisets; pairs and balance) over an exhaustive mod_ option x value sweep and seeded option subsets',
    text='Every one of the 57 mod_ options singly at every value (exhaustive over options x values) and seeded subsets of 0..10 mod_ options with random whitespace options are applied to corpus files of all nine languages and to generated C/C++/Java programs (nested single-statement bodies, if/else chains, switch/case, do-while, bare blocks, own-line comments). After removing the token texts the enabled options are documented to add or remove (braces, parentheses, ";", "int", ",", "return ;", loop-header tokens; whole include/import/using/alias lines compared as multisets; statement-moving options compared as multisets) the input and output token streams with directive brackets must be identical, braces/parentheses must be added or removed in pairs, balanced nesting must stay balanced, and with no mod_ option enabled the streams must be identical. Hosts: C, C++, Java, C# and Objective-C (every property attribute kind) programs dense in the shapes the options rewrite.',
    note='Trusted: the independent lexer (precise for C, C++, ObjC, Java, C#; for the other languages a boundary-only difference with equal characters is accepted). Files whose token stream already changes under the default configuration (C02 findings) are classed baseline-differs.',
    design='DESIGN.md §2 C04')

CHECKS['C01'] = dict(level='translation_validation',
    technique='runtime monitoring with a reference compiler as oracle: every generated program and its formatted version are compiled with the same compiler and flags (gcc/g++/clang -O1 -S on stdin, javac -g:none) and the object code compared (per-instance translation validation)',
    text='Grammar-generated compilable programs (C, C++17, Java, Objective-C) made of a hand-written preamble (includes to sort over generated headers, macros incl. multi-line, #if 0 branches, enums with/without trailing comma, every int-keyword spelling, extra semicolons, empty returns, all infinite-loop forms, bit-fields, designated initialisers, templates incl. >>, lambdas, range-for, ctor initialisers, try/catch/finally, synchronized) and generated functions (every statement kind, braceless bodies, nested blocks, pointer/unary chains next to binary operators such as a / *q1, a - -b, a & *&b, own-line comments; hostile layout) are formatted under every non-excluded option singly at every swept non-default value (about 2100 option=value configs in a covering design: each meets 2 (quick) / 8 (thorough) programs) and under joint draws over all non-excluded options. uncrustify must exit 0, the output must compile, and the assembly (minus .file/.ident) or class files must be identical to those of the input. Programs the compiler rejects are discarded and counted; distinct outputs are compiled once. Nine hand-written hosts carry every shape the code-modifying passes look for (braced cases with declarations, removable braces, dangling-else shapes, one-liners, int spellings, enum commas) in every nesting context (plain body, statement expression / lambda / block as call argument, preprocessor branch, member function in a namespace, Java lambda and anonymous class) and are run under every code-modifying and comment-rewriting option at every value (thorough: every swept option) and joint draws. Every pair of code-modifying (option, value)s runs on the plain hosts (thorough: on all nine).',
    note='Trusted: gcc/g++/clang/javac as the semantics oracle at one optimisation level and target; the excluded configurations are those the statement excludes plus the two error-policy options.',
    design='DESIGN.md §2 C01')

ALL = ['C%02d' % i for i in range(1, 21)]


def main():
    checks = []
    for pid in ALL:
        if pid not in CHECKS:
            continue
        c = CHECKS[pid]
        checks.append(dict(
            property_id=pid,
            quick_cmd='./vcheck %s --tier quick' % pid,
            thorough_cmd='./vcheck %s --tier thorough' % pid,
            evidence_file='evidence/%s.json' % pid,
            replay_cmd_template='sh {path}/replay.sh',
            engine='vf',
            level_claimed=dict(category=c['level'], text=c['text'], design_ref=c['design']),
            level_note=c['note'],
            technique=c['technique']))
    na = [dict(property_id=p, reason='check not built yet (see DESIGN.md §2); not claimed until its monitor is validated')
          for p in ALL if p not in CHECKS]
    m = dict(
        version=1,
        setup_cmd='./vcheck setup',
        hooks=dict(guard='UNCRUSTIFY_VERIF',
                   enable='cmake -DCMAKE_CXX_FLAGS="-O2 -DUNCRUSTIFY_VERIF" (vf/build.py builds /repo out of tree under /verif/.cache with the guard on; hooks are inert unless UNCRUSTIFY_VERIF_DUMP / UNCRUSTIFY_VERIF_SPACE name a file)',
                   baseline_off_cmd='cmake -G Ninja -B /repo/_build -S /repo -DCMAKE_BUILD_TYPE=Release && cmake --build /repo/_build && ctest --test-dir /repo/_build -j8 --timeout 900',
                   source_commits=HOOK_COMMITS, add_only=True),
        engines=[dict(name='vf', path='vf/', serves_properties=sorted(CHECKS),
                      kind_free_text='python (stdlib) runtime-monitoring harness: builds /repo with hooks and sanitizers, drives one process per case, oracles over outputs/dumps/syscalls/file-system snapshots')],
        checks=checks,
        notes='All verdicts are "held on the executions described in the evidence file". VERIF_SEED selects members of fixed universes and seeds generators.',
        not_applicable=na)
    with open(os.path.join(HERE, 'MANIFEST.json'), 'w') as f:
        json.dump(m, f, indent=1)
        f.write('\n')


if __name__ == '__main__':
    main()
