#!/bin/sh
# Maintainer tool: run the quick check of a seeded change's property against a scratch worktree carrying the change.
# usage: tools/run_seeded.sh <seeded dir name, e.g. C07-1> ...        (never touches /repo's working tree)
HERE=$(cd "$(dirname "$0")/.." && pwd)
for s in "$@"; do
   prop=${s%%-*}
   wt=/tmp/seedrun-$s
   git -C /repo worktree remove --force $wt >/dev/null 2>&1
   git -C /repo worktree add -q $wt HEAD || exit 2
   if ! git -C $wt apply "$HERE/seeded/$s/patch.diff"; then
      echo "$s: patch does not apply to /repo HEAD"
   else
      out=$(cd "$HERE" && VERIF_REPO=$wt timeout 3000 ./vcheck $prop --tier quick 2>&1)
      n=$(printf '%s\n' "$out" | grep -c '^VIOLATION')
      echo "$s: $n VIOLATION line(s); $(printf '%s\n' "$out" | grep -m1 'key:' | cut -c1-150)"
   fi
   git -C /repo worktree remove --force $wt >/dev/null 2>&1
   h=$(python3 -c "import hashlib;print(hashlib.sha256('$wt'.encode()).hexdigest()[:8])")
   rm -rf "$HERE"/.cache/build-*-$h "$HERE"/.cache/lock-*-$h
done
