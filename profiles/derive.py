#!/usr/bin/env python3
"""Derive the curated C05 profile set from /repo/etc (run by hand; output committed).

Each profile is the shipped style verbatim plus the pinned overrides below, which switch off
settings that are input-dependent by design, so that the fixed-point claim is meaningful."""
import os

ETC = '/repo/etc'
HERE = os.path.dirname(os.path.abspath(__file__))
STYLES = ['ben', 'linux', 'kr-indent', 'gnu-indent', 'msvc', 'mono', 'klaus', 'xsupplicant', 'ben2']
PINNED = '''
# --- pinned by /verif/profiles/derive.py (input-dependent-by-design settings off) ---
indent_relative_single_line_comments = false
align_keep_tabs = false
align_keep_extra_space = false
'''
for s in STYLES:
    txt = open(os.path.join(ETC, s + '.cfg'), encoding='utf-8', errors='replace').read()
    with open(os.path.join(HERE, s + '.cfg'), 'w') as f:
        f.write(txt.rstrip('\n') + '\n' + PINNED)
with open(os.path.join(HERE, 'default.cfg'), 'w') as f:
    f.write('# built-in defaults\n')
