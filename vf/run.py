"""Run one uncrustify process with logical (CPU) time limits and classify how it ended."""
import glob
import os
import resource
import signal
import subprocess

CPU_LIMIT = {'plain': 20, 'asan': 60}
WALL_FACTOR = 6          # wall-clock watchdog = CPU limit * factor  (=> inconclusive, never a verdict)
DOCUMENTED_STATUS = {0, 1} | set(range(64, 79))


class Result:
    __slots__ = ('status', 'signal', 'stdout', 'stderr', 'cpu_timeout', 'wall_timeout', 'san_report', 'argv')

    def __init__(self):
        self.status = None
        self.signal = None
        self.stdout = b''
        self.stderr = b''
        self.cpu_timeout = False
        self.wall_timeout = False
        self.san_report = None
        self.argv = None

    @property
    def ok(self):
        return self.status == 0 and not self.san_report

    def how(self):
        if self.wall_timeout:
            return 'wall-timeout'
        if self.cpu_timeout:
            return 'cpu-timeout'
        if self.san_report:
            return 'sanitizer'
        if self.signal:
            return 'signal-%d' % self.signal
        return 'exit-%d' % self.status


def _limits(cpu, fsize=None, ignore_xfsz=False, as_limit=None):
    def fn():
        resource.setrlimit(resource.RLIMIT_CPU, (cpu, cpu + 2))
        resource.setrlimit(resource.RLIMIT_CORE, (0, 0))
        if fsize is not None:
            resource.setrlimit(resource.RLIMIT_FSIZE, (fsize, fsize))
            if ignore_xfsz:
                signal.signal(signal.SIGXFSZ, signal.SIG_IGN)
    return fn


def base_env(extra=None):
    env = {'PATH': '/usr/bin:/bin', 'LC_ALL': 'C', 'HOME': '/nonexistent'}
    if extra:
        env.update(extra)
    return env


def run(binary, args, stdin=None, cwd=None, env=None, kind='plain', san_dir=None,
        fsize=None, ignore_xfsz=False, prefix=None, cpu=None, stdout_to=None):
    """Run `binary args`.  For kind == 'asan' a log_path under san_dir recognises reports."""
    r = Result()
    e = base_env(env)
    san_prefix = None
    if kind == 'asan':
        san_dir = san_dir or cwd or '.'
        san_prefix = os.path.join(san_dir, 'san.%d' % os.getpid())
        for old in glob.glob(san_prefix + '*'):
            os.unlink(old)
        e.setdefault('ASAN_OPTIONS', 'detect_leaks=0:abort_on_error=1:exitcode=99:handle_abort=0:log_path=' + san_prefix)
        e.setdefault('UBSAN_OPTIONS', 'print_stacktrace=1:halt_on_error=1:exitcode=99:log_path=' + san_prefix)
    cpu = cpu or CPU_LIMIT[kind]
    argv = (prefix or []) + [binary] + list(args)
    r.argv = argv
    try:
        p = subprocess.Popen(argv, stdin=subprocess.PIPE if stdin is not None else subprocess.DEVNULL,
                             stdout=stdout_to if stdout_to is not None else subprocess.PIPE,
                             stderr=subprocess.PIPE, cwd=cwd, env=e,
                             preexec_fn=_limits(cpu, fsize, ignore_xfsz))
    except OSError as ex:
        r.status = 127
        r.stderr = str(ex).encode()
        return r
    try:
        out, err = p.communicate(stdin, timeout=cpu * WALL_FACTOR)
    except subprocess.TimeoutExpired:
        p.kill()
        out, err = p.communicate()
        r.wall_timeout = True
    r.stdout = out or b''
    r.stderr = err or b''
    rc = p.returncode
    if rc < 0:
        r.signal = -rc
        r.status = None
        if r.signal in (signal.SIGXCPU, signal.SIGKILL) and not r.wall_timeout:
            # RLIMIT_CPU: soft -> SIGXCPU, hard -> SIGKILL
            r.cpu_timeout = True
    else:
        r.status = rc
    if san_prefix:
        logs = glob.glob(san_prefix + '*')
        if logs:
            txt = b''
            for l in logs:
                with open(l, 'rb') as f:
                    txt += f.read()
                os.unlink(l)
            r.san_report = txt.decode(errors='replace')
    return r


def san_locus(report, depth=5):
    """Innermost uncrustify frames (function names only) of a sanitizer report."""
    import re
    frames = []
    kind = 'unknown'
    m = re.search(r'(runtime error: [^\n]*|AddressSanitizer: [\w-]+)', report)
    if m:
        kind = re.sub(r'0x[0-9a-f]+', 'ADDR', m.group(1))
        kind = re.sub(r'\d+', 'N', kind)[:80]
    for m in re.finditer(r'#\d+ 0x[0-9a-f]+ in ([^\s(]+)', report):
        fn = m.group(1)
        if fn.startswith('__') or fn.startswith('std::') or 'sanitizer' in fn or fn in ('main', '_start', 'operator', 'malloc', 'free'):
            continue
        frames.append(fn)
        if len(frames) >= depth:
            break
    return kind + ' @ ' + ' < '.join(frames)


def gdb_locus(binary, args, stdin_path=None, cwd=None, seconds=4, depth=3, pass_level=False):
    """Backtrace of a hanging run: innermost frames, function names only."""
    import re
    cmd = ['gdb', '-q', '-batch', '-ex', 'run' + (' < ' + stdin_path if stdin_path else ''),
           '-ex', 'bt 12', '--args', binary] + list(args)
    try:
        p = subprocess.Popen(cmd, stdout=subprocess.PIPE, stderr=subprocess.STDOUT, cwd=cwd,
                             env=base_env(), preexec_fn=os.setsid)
        try:
            out, _ = p.communicate(timeout=seconds)
        except subprocess.TimeoutExpired:
            # interrupt the inferior, let gdb print the backtrace
            subprocess.run(['pkill', '-INT', '-g', str(os.getpgid(p.pid)), '-f', os.path.basename(binary)],
                           stdout=subprocess.DEVNULL, stderr=subprocess.DEVNULL)
            try:
                out, _ = p.communicate(timeout=20)
            except subprocess.TimeoutExpired:
                os.killpg(os.getpgid(p.pid), signal.SIGKILL)
                out, _ = p.communicate()
    except OSError:
        return 'gdb-unavailable'
    frames = []
    for m in re.finditer(r'^#\d+\s+(?:0x[0-9a-f]+ in )?([^\s(]+)', out.decode(errors='replace'), re.M):
        fn = m.group(1)
        if fn.startswith('__') or fn.startswith('std::') or fn in ('main', '??', 'raise', 'abort'):
            continue
        frames.append(fn)
    if pass_level:
        # stable key for a hang: the pass called directly by the driver (sampling instant varies below it)
        for i, fn in enumerate(frames):
            if fn in ('uncrustify_file', 'uncrustify_start', 'do_source_file') and i > 0:
                # the pass, and the function the pass called (skipping list/text helpers): a livelock sits in a loop of that function,
                # the sampling instant varies only below it
                callee = next((f for f in reversed(frames[:i - 1]) if not f.startswith(('Chunk::', 'UncText', 'ChunkStack', 'log_', 'operator', '_', 'std::', 'mem', 'str')) and '<' not in f
                       and f not in ('void', 'int', 'bool', 'malloc', 'free', 'calloc', 'realloc', 'cfree', 'sysmalloc', 'unlink_chunk', 'tcache_get', 'tcache_put')), None)
                return 'pass ' + frames[i - 1] + (' > ' + callee if callee else '')
        return 'pass ' + (frames[-1] if frames else 'no-frames')
    return ' < '.join(frames[:depth]) or 'no-frames'
