"""C16 - bad configuration lines are diagnosed and have no other effect (ASan+UBSan binary)."""
import os
import re
import shutil

from .. import build, cfgio, corpus, faults, fmt, mutate, registry, run
from ..common import REPO, case_dir, pmap, rng, fixed_rng, sha

LEVEL = 'exploration'
PROP = 'C16'

BASE = '''# base configuration (valid)
indent_columns = 3
indent_with_tabs = 0
sp_arith = force
sp_assign = add
nl_max = 4
code_width = 100
align_assign_span = 1
nl_fdef_brace = add
mod_full_brace_if = add
cmt_width = 80
pos_arith = lead
newlines = lf
type my_t
set FOR my_foreach
file_ext CPP .cxx2
'''
SAMPLE = b'void f(int a){if(a)g(a+1);\n\n\n\n\n\nmy_t*p;}\n'


def bad_lines(o, names):
    """[(class, line text)] for one option."""
    n = o.name
    out = []
    if o.type in ('unsigned', 'signed'):
        lo = o.min if o.min is not None else (0 if o.type == 'unsigned' else None)
        hi = o.max
        if lo is not None:
            out.append(('below-min', '%s = %d' % (n, lo - 1)))
        if hi is not None:
            out.append(('above-max', '%s = %d' % (n, hi + 1)))
        out += [('above-2^31', '%s = 2147483648' % n), ('below--2^31', '%s = -2147483649' % n),
                ('2^63', '%s = 9223372036854775808' % n), ('twenty-digits', '%s = 99999999999999999999' % n),
                ('float', '%s = 1.5' % n), ('word', '%s = zzz_not_a_value' % n), ('trailing-garbage', '%s = 3x' % n)]
        boolref = next(x for x in names if names[x] == 'bool')
        out.append(('wrong-type-reference', '%s = %s' % (n, boolref)))
        # a negated reference whose value is in range but whose negation is not (output_tab_size defaults to 8)
        if n not in ('output_tab_size', 'input_tab_size') and (o.type == 'unsigned' or (lo is not None and lo > -8)):
            out.append(('negated-reference-out-of-range', '%s = -output_tab_size' % n))
        if hi is not None and hi < 8 and o.type == 'signed':
            out.append(('reference-out-of-range', '%s = output_tab_size' % n))
    elif o.type == 'bool':
        out += [('number', '%s = 2' % n), ('word', '%s = maybe' % n), ('iarf-word', '%s = force' % n)]
        numref = next(x for x in names if names[x] == 'unsigned')
        out.append(('wrong-type-reference', '%s = %s' % (n, numref)))
    elif o.type in ('iarf', 'tokenpos', 'enum'):
        out += [('number', '%s = 3' % n), ('word', '%s = maybe' % n)] + ([('bool-word', '%s = true' % n)] if o.type != 'iarf' else [])
        numref = next(x for x in names if names[x] == 'unsigned')
        out.append(('wrong-type-reference', '%s = %s' % (n, numref)))
    if o.type != 'string':
        out.append(('dangling-reference', '%s = %s_nonexistent' % (n, n)))
    out.append(('no-value', '%s =' % n))
    out.append(('unterminated-quote', '%s = "abc' % n))
    out.append(('text-after-quote', '%s = "abc"def' % n))
    out.append(('unknown-name', '%sx = 1' % n))
    return out


def _dump(cfg_text):
    r, s = cfgio.update_config(cfg_text, kind='asan')
    return r, s


def _bad_case(t):
    oname, cls, line, pos = t
    base_lines = BASE.split('\n')[:-1]
    lines = base_lines[:pos] + [line] + base_lines[pos:]
    r0, s0 = _dump(BASE)
    r, s = _dump('\n'.join(lines) + '\n')
    probs = []
    lineno = pos + 1
    if r.san_report or r.signal or r.cpu_timeout:
        return (oname, cls, 2, [('config-crash', 'line %r: %s %s' % (line, r.how(), run.san_locus(r.san_report) if r.san_report else r.stderr[-300:].decode(errors='replace')))])
    err = r.stderr.decode(errors='replace')
    target = oname + 'x' if cls == 'unknown-name' else oname
    diag = [l for l in err.split('\n') if 'k.cfg' in l and re.search(r'\b%d\b' % lineno, l)]
    named = [l for l in diag if target in l]
    if not diag:
        probs.append(('no-diagnostic|' + cls, 'bad line %r (line %d): stderr has no message naming the file and the line: %r' % (line, lineno, err[:300])))
    elif not named and cls not in ('unterminated-quote', 'text-after-quote'):
        probs.append(('diagnostic-without-option|' + cls, 'bad line %r (line %d): the diagnostic does not name the option: %r' % (line, lineno, diag[0][:300])))
    if s is None:
        if r.status in (0, None):
            probs.append(('no-dump', 'bad line %r: no dump, %s' % (line, r.how())))
        # a refusal of the whole config is a diagnosis, nothing more to compare
    elif cfgio.body(s) != cfgio.body(s0):
        v0, d0 = cfgio.parse(s0)
        v1, d1 = cfgio.parse(s)
        diff = sorted(k for k in set(v0) | set(v1) if v0.get(k) != v1.get(k))
        probs.append(('bad-line-has-effect|' + cls, 'bad line %r changes the loaded settings: %s directives %s' % (
            line, [(k, v0.get(k), v1.get(k)) for k in diff[:4]], d0 != d1)))
    return (oname, cls, 2, probs)


def _behaviour_case(t):
    """Formatting with K+bad line equals formatting with K."""
    line, pos = t
    base_lines = BASE.split('\n')[:-1]
    K2 = '\n'.join(base_lines[:pos] + [line] + base_lines[pos:]) + '\n'
    a = fmt.fmt(SAMPLE, 'C', BASE, kind='asan')
    b = fmt.fmt(SAMPLE, 'C', K2, kind='asan')
    if b.res.san_report or b.res.signal:
        return (line, [('config-crash', 'formatting with bad line %r: %s' % (line, b.res.how()))])
    if a.out != b.out or a.status != b.status:
        return (line, [('bad-line-changes-formatting', 'bad line %r: output/status differ (%s vs %s)' % (line, a.status, b.status))])
    return (line, [])


HOSTILE = {
    'empty': b'', 'only-comment': b'# nothing\n', 'nul': b'indent_columns = 4\x00\nsp_arith = add\n', 'nul-first': b'\x00',
    'non-ascii': 'indent_columns = 4 # ä\nsp_arith = ädd\n'.encode(), 'latin1': b'indent_columns = \xe9\n',
    'cr-only': b'indent_columns = 4\rsp_arith = add\r', 'crlf': b'indent_columns = 4\r\nsp_arith = add\r\n',
    'long-line': b'indent_columns = ' + b'9' * 70000 + b'\n', 'long-name': b'a' * 70000 + b' = 1\n',
    'long-quoted': b'cmt_insert_file_header = "' + b'x' * 70000 + b'"\n', 'many-args': b'type ' + b'T ' * 20000 + b'\n',
    'include-missing': b'include nonexistent.cfg\n', 'include-dir': b'include .\n', 'include-empty': b'include ""\n',
    'include-self': b'include k.cfg\n', 'include-cycle': b'include other.cfg\n', 'include-abs-missing': b'include /nonexistent/x.cfg\n',
    'using-word': b'using abc\n', 'using-a.b': b'using a.b\n', 'using-huge': b'using 99999999999999999999.1\n', 'using-1': b'using 1\n',
    'using-neg': b'using -1.-2\n', 'using-4parts': b'using 1.2.3.4\n', 'using-empty': b'using\n', 'using-ok': b'using 0.78.1\n',
    'using-float': b'using 0.7e1\n', 'using-dots': b'using ..\n', 'using-1.': b'using 1.\n',
    'set-0': b'set\n', 'set-1': b'set FOR\n', 'set-unknown': b'set NOT_A_TOKEN x\n', 'file_ext-1': b'file_ext CPP\n', 'file_ext-unknown': b'file_ext KLINGON .kl\n',
    'type-0': b'type\n', 'macro-open-0': b'macro-open\n', 'equals-only': b'=\n', 'quote-only': b'"\n', 'backslash-end': b'indent_columns = 4\\\n',
    'backslash-only': b'\\\n', 'name-backslash': b'indent\\_columns = 4\n', 'tick': b'cmt_insert_file_header = `a b`\n', 'hash-in-quotes': b'cmt_insert_file_header = "a#b"\n',
    'deep-quote': b'indent_columns = "\\"\\"\\"\n', 'unterminated-escape': b'cmt_insert_file_header = "abc\\\n',
    'deprecated': b'sp_cpp_lambda_paren = add\nsp_word_brace = add\npp_space = add\nnl_func_var_def_blk = 1\n',
}


def _hostile_case(t):
    name, data = t
    keep = {'other.cfg': b'include k.cfg\n'} if name == 'include-cycle' else None
    r, s = cfgio.update_config(data, kind='asan', keep_files=keep)
    if r.san_report or r.signal or r.cpu_timeout or r.wall_timeout:
        locus = run.san_locus(r.san_report) if r.san_report else ''
        m = re.search(rb"instance of '([^']+)'", r.stderr)
        return (name, [('config-crash|%s' % ('include-recursion' if name in ('include-self', 'include-cycle') else 'using-version' if name.startswith('using') else name),
                        'config %s (%r...): %s %s %s' % (name, data[:60], r.how(), locus, m.group(1).decode() if m else ''))])
    if r.status not in run.DOCUMENTED_STATUS:
        return (name, [('config-status|' + name, 'config %s: exit %s' % (name, r.status))])
    return (name, [])


def _mutant_case(t):
    cfgrel, idx = t
    r = fixed_rng(PROP, 'mut:%s:%d' % (cfgrel, idx))
    data = open(os.path.join(REPO, 'tests', 'config', cfgrel), 'rb').read()
    data = mutate.mutate(data, r)
    rr, s = cfgio.update_config(data, kind='asan')
    if rr.san_report or rr.signal or rr.cpu_timeout:
        locus = run.san_locus(rr.san_report) if rr.san_report else ''
        m = re.search(rb"instance of '([^']+)'", rr.stderr)
        bad = re.search(rb'^\s*(using|include)\b', data, re.M)
        return (cfgrel, idx, [('config-crash|mutant|%s|%s' % (locus or (m.group(1).decode() if m else rr.how()), bad.group(1).decode() if bad else '-'),
                               'mutated tests/config/%s #%d: %s %s' % (cfgrel, idx, rr.how(), rr.stderr[-200:].decode(errors='replace')), data)])
    return (cfgrel, idx, [])


def _nlmax_case(t):
    oname, n, value = t
    d = case_dir('c16n')
    try:
        cfg = os.path.join(d, 'k.cfg')
        with open(cfg, 'w') as f:
            f.write('nl_max = %d\n%s = %d\n' % (n, oname, value))
        with open(os.path.join(d, 'src.c'), 'wb') as f:
            f.write(SAMPLE)
        res, tr, _ = faults.strace_run(build.binary('plain'), ['-c', cfg, '-f', 'src.c'], d, trace_path=os.path.join(d, 'trace.txt'))
        opened = any('"src.c"' in rest for name, rest in tr if name in ('openat', 'open'))
        probs = []
        if value > n:
            if res.status != 78:
                probs.append(('nl-max-not-refused|' + oname, 'nl_max=%d with %s=%d: exit %s instead of EX_CONFIG (78)' % (n, oname, value, res.status)))
            if opened:
                probs.append(('nl-max-source-read|' + oname, 'nl_max=%d with %s=%d: the source file was opened' % (n, oname, value)))
        else:
            if res.status != 0:
                probs.append(('nl-max-refused-consistent|' + oname, 'nl_max=%d with %s=%d (consistent): exit %s' % (n, oname, value, res.status)))
        return (oname, probs)
    finally:
        shutil.rmtree(d, ignore_errors=True)


def check(ctx):
    b = build.binary('asan')
    build.binary('plain')
    quick = ctx.tier == 'quick'
    sr = rng(PROP, 'select')
    opts = registry.options(b)
    names = {o.name: o.type for o in opts}
    nbase = len(BASE.split('\n')) - 1
    tasks = []
    for o in opts:
        fr = fixed_rng(PROP, 'pos:' + o.name)
        for cls, line in bad_lines(o, names):
            tasks.append((o.name, cls, line, fr.randrange(0, nbase + 1)))
    ctx.extra['bad_line_universe'] = len(tasks)
    sel = tasks if not quick else sr.sample(tasks, 2500)
    ctx.exhaustive = not quick
    seen = set()
    for oname, cls, runs, probs in pmap(_bad_case, sel):
        ctx.evaluations += runs
        ctx.count('bad_lines')
        ctx.count('class_' + cls)
        seen.add(oname)
        if not probs:
            ctx.nt(oname, cls)
        for kind, desc in probs:
            ctx.violation(kind, desc, files={'base.cfg': BASE})
    ctx.counters['options_exercised'] = len(seen)
    for line, probs in pmap(_behaviour_case, [(t[2], t[3]) for t in sr.sample(tasks, 150 if quick else 1500)]):
        ctx.evaluations += 2
        ctx.count('behaviour_cases')
        for kind, desc in probs:
            ctx.violation(kind, desc)
    for name, probs in pmap(_hostile_case, sorted(HOSTILE.items())):
        ctx.evaluations += 1
        ctx.count('hostile_files')
        if not probs:
            ctx.nt('hostile', name)
        for kind, desc in probs:
            ctx.violation(kind, desc, files={'k.cfg': HOSTILE[name]})
    cfgs = corpus.test_configs()
    muts = [(c, i) for c in cfgs for i in range(4)]
    ctx.extra['config_mutant_universe'] = len(muts)
    for cfgrel, idx, probs in pmap(_mutant_case, sr.sample(muts, 1500) if quick else muts):
        ctx.evaluations += 1
        ctx.count('config_mutants')
        for kind, desc, data in probs:
            ctx.violation(kind, desc, files={'k.cfg': data})
    # nl_max consistency: every blank-line count option of the registry
    counts = [o.name for o in opts if o.type == 'unsigned' and o.name.startswith('nl_') and 'max' not in o.name
              and re.search(r'^nl_(before|after|inside|around|between|comment|min_after|start_of_file_min|end_of_file_min|var_def_blk_(start|end)|typedef_blk_(start|end))', o.name)]
    ctx.extra['blank_line_count_options'] = counts
    nl = []
    for oname in counts:
        nl += [(oname, 2, 3), (oname, 2, 2), (oname, 1, 16), (oname, 5, 6)]
    for oname, probs in pmap(_nlmax_case, nl):
        ctx.evaluations += 1
        ctx.count('nl_max_cases')
        for kind, desc in probs:
            ctx.violation(kind, desc)
    ctx.rule = ('(a) for every option, every bad-value class (out of range both sides, 32/64-bit overflow, wrong type, dangling/wrong-type reference, '
                'unknown name, bad quoting) inserted at a fixed position of a valid base config: diagnostic naming file+line+option, dump identical '
                'to the base dump (asan binary); (b) hostile and mutated config files: no crash/hang/report; (c) nl_max vs every blank-line count '
                'option: EX_CONFIG and source never opened (strace); non-trivial = distinct (option, class) diagnosed without effect')
    ctx.sample(dict(bad_line=sel[0][2], inserted_at_line=sel[0][3] + 1, expect=['stderr names k.cfg, the line and the option', 'dump == dump of base']))
    ctx.sample(dict(hostile=sorted(HOSTILE)[:12]))
    ctx.assumptions += ['a configuration refused as a whole (non-zero status with diagnostic) counts as diagnosed',
                        'blank-line count options = unsigned nl_before_/nl_after_/... options of the registry (maximum-type options are caps, not requests)']
    ctx.require('bad_lines', 1500)
    ctx.require('options_exercised', 400)
    ctx.require('nl_max_cases', 100)
