"""C13 - in-place rewriting is all-or-nothing (strace crash/fault enumeration, RLIMIT_FSIZE short writes)."""
import hashlib
import os
import shutil

from .. import build, faults, fmt, run
from ..common import case_dir, pmap, rng, fixed_rng, sha

LEVEL = 'fault_enumeration'
PROP = 'C13'
NAME = 'src.c'
BACKUP = NAME + '.unc-backup~'
MD5 = NAME + '.unc-backup.md5~'
TMP = NAME + '.uncrustify'

FAULT_ERRORS = {
    'openat': ['ENOSPC', 'EACCES', 'EIO'], 'open': ['ENOSPC', 'EACCES'], 'write': ['ENOSPC', 'EIO'], 'close': ['EIO', 'ENOSPC'],
    'rename': ['EACCES', 'EIO', 'ENOSPC'], 'unlink': ['EACCES', 'EIO'], 'mkdir': ['EACCES', 'ENOSPC'],
    'newfstatat': ['EACCES', 'EIO'], 'fstat': ['EIO'], 'read': ['EIO'], 'utime': ['EACCES'], 'utimensat': ['EACCES'],
    'lseek': ['EIO'], 'ftruncate': ['EIO'],
}
MODES = {
    'replace': ['--replace', NAME],
    'no-backup': ['--no-backup', NAME],
    'replace-no-backup': ['--replace', '--no-backup', NAME],
    'f-o-same': ['-f', NAME, '-o', NAME],
    # the same file under another spelling of its path (find(1) style)
    'replace-dotslash': ['--replace', './' + NAME],
    'no-backup-dotslash': ['--no-backup', './' + NAME],
}
CFG = "indent_columns=4\nindent_with_tabs=0\nnl_end_of_file=force\nnl_end_of_file_min=1\nnl_max=2\n"


def header_file():
    from ..common import scratch_root
    p = os.path.join(scratch_root(), 'c13-header.txt')
    if not os.path.exists(p):
        tmp = p + '.%d' % os.getpid()
        with open(tmp, 'wb') as f:
            f.write(b'/* inserted header */\n')
        os.replace(tmp, p)
    return p


def cfg_for(sc):
    """An empty (or blank) source is only rewritten when the configuration inserts text."""
    if sc['state'] in ('empty', 'blank'):
        return CFG + 'cmt_insert_file_header = "%s"\n' % header_file()
    return CFG


def source(kind, size):
    if kind == 'empty':
        return b''
    if kind == 'blank':
        return b'\n'
    body = b''
    i = 0
    unit = b'int f%d(int a){int b=a;\nif(a){b=b+%d;}\nreturn b;}\n'
    while len(body) < size:
        u = unit % (i, i)
        if kind == 'shrinks':
            # lots of trailing blanks and blank lines: the formatted text is much smaller than the source, so a size limit can
            # cut the backup copy short while the output still fits
            u = u.replace(b'\n', b' ' * 120 + b'\n\n\n')
        body += u
        i += 1
    if kind == 'fails-early':
        body += b'void g(void) { /* unterminated\n'
    if kind == 'fails-late':
        body += b'#endif\nint a;\n'
    return body


def md5_line(data, name=NAME):
    return (hashlib.md5(data).hexdigest() + '  ' + name + '\n').encode()


def scenarios(tier):
    out = []
    sizes = {'small': 60, 'page': 5000, 'big': 20000}
    for mode in MODES:
        for state in ('needs', 'formatted', 'fails-early', 'fails-late', 'shrinks', 'empty', 'blank'):
            for prior in (('none',) if 'no-backup' in mode else ('none', 'valid', 'stale')):
                for sz in sizes:
                    if (state.startswith('fails') or state in ('empty', 'blank')) and sz != 'small':
                        continue
                    if state == 'shrinks' and (sz == 'small' or 'no-backup' in mode):
                        continue
                    out.append(dict(mode=mode, state=state, prior=prior, size=sz, nbytes=sizes[sz]))
    return out


def setup(d, sc, F):
    x = source(sc['state'], sc['nbytes'])
    if sc['state'] == 'formatted':
        x = F(x, cfg_for(sc))
    with open(os.path.join(d, NAME), 'wb') as f:
        f.write(x)
    if sc['prior'] == 'valid':
        # a previous run left: backup of an older original, md5 of the current content
        with open(os.path.join(d, BACKUP), 'wb') as f:
            f.write(b'/* older original */\n')
        with open(os.path.join(d, MD5), 'wb') as f:
            f.write(md5_line(x))
    elif sc['prior'] == 'stale':
        with open(os.path.join(d, BACKUP), 'wb') as f:
            f.write(b'/* older original */\n')
        with open(os.path.join(d, MD5), 'wb') as f:
            f.write(md5_line(b'something else\n'))
    return x


def judge(sc, orig, formatted, snap, res, injected_fault, killed):
    """-> list of (kind, description)."""
    probs = []
    cur = snap.get(NAME)
    if cur is None:
        probs.append(('target-missing', 'the path does not exist any more'))
    elif cur != orig and (formatted is None or cur != formatted):
        what = 'empty' if cur == b'' else ('a prefix of the formatted text' if formatted and formatted.startswith(cur) else
                                           'a prefix of the original' if orig.startswith(cur) else 'mixed/other bytes')
        probs.append(('target-corrupt', 'the path holds neither the original (%d B) nor the formatted text (%s B) but %d B: %s' % (
            len(orig), len(formatted) if formatted is not None else '-', len(cur), what)))
    if 'no-backup' not in sc['mode'] and cur is not None and cur != orig and sc['prior'] != 'valid':
        b = snap.get(BACKUP)
        if b is None:
            probs.append(('backup-missing', 'the path no longer holds the original and no backup exists'))
        elif b != orig:
            probs.append(('backup-wrong', 'the path no longer holds the original and the backup (%d B) is not the original (%d B)' % (len(b), len(orig))))
    if not killed:
        success_state = formatted is not None and cur == formatted
        if sc['state'].startswith('fails'):
            if res.status == 0:
                probs.append(('failure-exit-0', 'formatting fails but the exit status is 0'))
        elif injected_fault and not success_state and res.status == 0:
            probs.append(('fault-exit-0', 'an injected I/O error prevented the rewrite (file state is not the formatted text) but the exit status is 0'))
        elif not injected_fault and res.status == 0 and not success_state:
            probs.append(('silent-no-op', 'no fault, exit 0, but the path does not hold the formatted text'))
        if injected_fault and not success_state and res.status == 0 and cur == orig:
            pass
    return probs


_fmt_cache = {}


def _fmt(x, cfg=CFG):
    """F(x) with a per-content cache file in the scratch root (shared by the worker processes)."""
    from ..common import scratch_root
    k = sha(x + b'|' + cfg.encode())
    if k in _fmt_cache:
        return _fmt_cache[k]
    p = os.path.join(scratch_root(), 'c13fmt-' + k)
    if os.path.exists(p):
        with open(p, 'rb') as f:
            out = f.read()
    else:
        out = fmt.fmt(x, 'C', cfg).out
        if out is not None:
            with open(p + '.%d' % os.getpid(), 'wb') as f:
                f.write(out)
            os.replace(p + '.%d' % os.getpid(), p)
    _fmt_cache[k] = out
    return out


def sc_id(sc):
    return '%s-%s-%s-%s' % (sc['mode'], sc['state'], sc['prior'], sc['size'])


def _reference(sc):
    """Phase 1: reference run under strace; returns the list of points to visit."""
    b = build.binary('plain')
    top = case_dir('c13ref')
    args = ['-q', '-c', fmt.cfg_file(cfg_for(sc)), '-l', 'C'] + MODES[sc['mode']]
    try:
        d = os.path.join(top, 'ref')
        os.makedirs(d)
        orig = setup(d, sc, _fmt)
        formatted = _fmt(orig, cfg_for(sc)) if not sc['state'].startswith('fails') else None
        res, tr, _ = faults.strace_run(b, args, d, trace_path=os.path.join(top, 'ref.trace'))
        probs = [(kind, 'no fault', desc) for kind, desc in judge(sc, orig, formatted, faults.snapshot(d), res, False, False)]
        win = faults.window(tr, '"' + NAME)
        points = []
        if not sc['state'].startswith('fails'):
            for _, name, occ, rest in win:
                points.append(('kill', 'kill before %s#%d(%s' % (name, occ, rest[:40]), ['%s:signal=SIGKILL:when=%d' % (name, occ)], None, False))
            fpoints = []
            for _, name, occ, rest in win:
                for err in FAULT_ERRORS.get(name, []):
                    fpoints.append((name, occ, err, rest))
            for name, occ, err, rest in fpoints:
                points.append(('fault', '%s on %s#%d(%s' % (err, name, occ, rest[:40]), ['%s:error=%s:when=%d' % (name, err, occ)], None, False))
            if sc.get('pairs'):
                r = fixed_rng(PROP, 'pairs:' + sc_id(sc))
                cand = [(a, c) for i, a in enumerate(fpoints) for c in fpoints[i + 1:] if a[0] != c[0] or c[1] > a[1]]
                for a, c in (cand if len(cand) <= sc['pairs'] else r.sample(cand, sc['pairs'])):
                    if a[0] != c[0]:
                        inj = ['%s:error=%s:when=%d' % (a[0], a[2], a[1]), '%s:error=%s:when=%d' % (c[0], c[2], c[1])]
                    else:
                        inj = ['%s:error=%s:when=%d+%d' % (a[0], a[2], a[1], c[1] - a[1])]
                    points.append(('pair', '%s on %s#%d(%s and %s on %s#%d(%s' % (a[2], a[0], a[1], a[3][:30], c[2], c[0], c[1], c[3][:30]), inj, None, False))
            n = len(formatted or orig)
            lims = {0, 1, n // 2, max(0, n - 1), n, 4095, 4096, 4097}
            if formatted is not None and len(orig) > len(formatted) + 4096:
                lims |= {len(formatted) + 1, (len(formatted) + len(orig)) // 2, len(orig) - 1}
                lims |= {k * 4096 for k in range(1, len(orig) // 4096 + 1) if len(formatted) < k * 4096 < len(orig)}
            for lim in sorted(lims):
                for ign in (True, False):
                    points.append(('fsize', 'RLIMIT_FSIZE=%d, SIGXFSZ %s' % (lim, 'ignored' if ign else 'default'), [], lim, ign))
        return dict(sc=sc, probs=probs, window=['%s#%d' % (n, o) for _, n, o, _ in win], points=points)
    finally:
        shutil.rmtree(top, ignore_errors=True)


def _point(t):
    """Phase 2: one injected run."""
    sc, (ptype, tag, inject, fsize, ign) = t
    b = build.binary('plain')
    top = case_dir('c13')
    args = ['-q', '-c', fmt.cfg_file(cfg_for(sc)), '-l', 'C'] + MODES[sc['mode']]
    try:
        d = os.path.join(top, 'r')
        os.makedirs(d)
        orig = setup(d, sc, _fmt)
        formatted = _fmt(orig, cfg_for(sc))
        if ptype == 'fsize':
            # no strace here: the limit would apply to strace's own trace file too
            res, inj = run.run(b, args, cwd=d, fsize=fsize, ignore_xfsz=ign), 0
        else:
            res, tr, inj = faults.strace_run(b, args, d, inject=inject, trace_path=os.path.join(top, 'r.trace'))
        killed = bool(res.signal)
        if ptype == 'kill':
            fired = res.signal == 9
        elif ptype == 'fsize':
            fired = True
        else:
            fired = inj > 0
        probs = []
        if fired:
            is_fault = ptype in ('fault', 'pair') or (ptype == 'fsize' and not killed)
            probs = [(kind, tag, desc) for kind, desc in judge(sc, orig, formatted, faults.snapshot(d), res, is_fault, killed)]
        return (sc_id(sc), ptype, fired, inj, probs)
    finally:
        shutil.rmtree(top, ignore_errors=True)


def root_key(sc, kind, tag):
    """Root-cause key: what failed, on which kind of file, with which kind of fault."""
    import re
    fault = 'none'
    target = ''
    if tag.startswith('kill'):
        fault = 'kill'
    elif tag.startswith('RLIMIT'):
        fault = 'short-write' + ('-ignored' if 'ignored' in tag else '-killed')
    elif tag != 'no fault':
        m = re.match(r'(\w+) on (\w+)#\d+\((.*)', tag)
        fault = '%s:%s' % (m.group(2), 'error')
        rest = m.group(3)
        target = ('tmp' if TMP in rest else 'backup' if BACKUP in rest else 'md5' if MD5 in rest else 'source' if NAME in rest else 'fd')
    return '%s|%s|%s|%s' % (kind, 'nobackup' if 'no-backup' in sc['mode'] else 'backup', fault, target)


def check(ctx):
    build.binary('plain')
    quick = ctx.tier == 'quick'
    scs = scenarios(ctx.tier)
    for sc in scs:
        sc['pairs'] = 40 if quick else 600
    ctx.exhaustive = True
    ctx.rule = ('per scenario (mode x needs/formatted/fails x prior backup state x size): a reference strace lists every syscall from the first '
                'touch of the source; each is a crash point (SIGKILL on entry) and, for file syscalls, a fault point (ENOSPC/EACCES/EIO); '
                'thorough adds fault pairs; plus RLIMIT_FSIZE short writes; verdict from the directory snapshot; '
                'non-trivial = distinct (scenario, point) where the fault/kill fired ((INJECTED) seen)')
    refs = pmap(_reference, scs, chunksize=1)
    by_id = {sc_id(r['sc']): r for r in refs}
    tasks = []
    for r in refs:
        sc = r['sc']
        ctx.evaluations += 1
        ctx.count('scenarios')
        for p in r['points']:
            tasks.append((sc, p))
        for kind, tag, desc in r['probs']:
            ctx.violation(root_key(sc, kind, tag), 'scenario %s, %s: %s' % (sc_id(sc), tag, desc),
                          files={'config.cfg': cfg_for(sc), NAME: source(sc['state'], sc['nbytes'])},
                          argv=['uncrustify', '-c', 'config.cfg', '-l', 'C'] + MODES[sc['mode']])
        if len(ctx.samples) < 3 and r['window']:
            ctx.sample(dict(scenario=sc_id(sc), syscalls_after_first_touch=r['window'][:40]))
    for k, (scid, ptype, fired, inj, probs) in enumerate(pmap(_point, tasks)):
        ctx.evaluations += 1
        sc = by_id[scid]['sc']
        if not fired:
            ctx.count('points_not_fired')
            continue
        ctx.count({'kill': 'crash_points', 'fault': 'fault_points', 'pair': 'fault_pairs', 'fsize': 'fsize_runs'}[ptype])
        ctx.count('injected_marks_seen', inj)
        ctx.nt(scid, tasks[k][1][1])
        for kind, tag, desc in probs:
            ctx.violation(root_key(sc, kind, tag), 'scenario %s, %s: %s' % (scid, tag, desc),
                          files={'config.cfg': cfg_for(sc), NAME: source(sc['state'], sc['nbytes']), 'fault.txt': tag + '\n' + ' '.join(tasks[k][1][2])},
                          argv=['uncrustify', '-c', 'config.cfg', '-l', 'C'] + MODES[sc['mode']])
    ctx.assumptions += ['atomicity inside rename(2) and durability across power loss are the kernel\'s',
                        'with a prior backup whose md5 matches the current content the backup clause is left to C14',
                        'SIGKILL lands on syscall entry, i.e. after the previous syscall completed']
    ctx.require('crash_points', 300)
    ctx.require('fault_points', 300)
    ctx.require('injected_marks_seen', 600)
