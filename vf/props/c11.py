"""C11 - files of one invocation are formatted independently of each other."""
import os
import shutil

from .. import build, corpus, fmt, run
from ..common import REPO, case_dir, pmap, rng, fixed_rng, sha

LEVEL = 'exploration'
PROP = 'C11'

# hand-written files that dirty one piece of cross-file state each (poisoners)
POISON = {
    'off_unterminated.c': b'int a;\n/* *INDENT-OFF* */\nint   b  ;\n',
    'pragma_asm.c': b'void f(void)\n{\n#pragma asm\n   mov a, b\n',
    'crlf.c': b'int a;\r\nint b;\r\nvoid f(void)\r\n{\r\n  a = b;\r\n}\r\n',
    'cr.c': b'int a;\rint b;\rvoid f(void)\r{\r  a = b;\r}\r',
    'bom.c': b'\xef\xbb\xbfint a;\nint b;\n',
    'utf16le.c': '﻿int a;\nint äb;\n'.encode('utf-16-le'),
    'utf16be.c': '﻿int a;\nint äb;\n'.encode('utf-16-be'),
    'oc_tokens.c': b'void f(void)\n{\n   id a = @[ @1, @2 ];\n   SEL s = @selector(foo:);\n}\n',
    'oc_msg.m': b'@implementation A\n- (void) f {\n  [self foo:1 bar:2];\n}\n@end\n',
    'qt.cpp': b'void f()\n{\n   connect(a, SIGNAL(x(int , int)), b, SLOT(y( int,int )));\n}\n',
    # files whose extension names no language (C by default): the language must not be inherited from the file before
    'table.def': b'static int lookup(struct entry *e, int key)\n{\n   int in=e -> first;\n   int r=(key<in)?e -> lo:e -> hi;\n   return r+in;\n}\n',
    'tmpl.tcc': b'template<class T> class V { T *p; public: T&at(int i){return p [i];} };\nint g(int a){return a >>> 2;}\n',
    'noext': b'int main(void){int is=1;int as=2;return is+as;}\n',
    'qt_multi.cpp': b'void Test::init()\n{\n\tconnect( m_ppcCom,\n\t         SIGNAL(sigReceivedBundle(QString)),\n\t         SLOT(doProcessBundle(QString)) );\n\tconnect( m_ppcCom,\n\t         SIGNAL(sigReceivedBundle),\n\t         SLOT(doProcessBundle));\n}\n',
    'qt_victim.cpp': b'void g()\n{\n\tcall( a , b );\n\tconnect( x,\n\t         SIGNAL(s(int)),\n\t         SLOT(t(int)) );\n}\n',
    'includes.cpp': b'#include "z.h"\n#include "a.h"\n#include <m.h>\nint x;\n',
    'ifdef_whole.h': b'#ifndef A_H\n#define A_H\nint a;\n#endif\n',
    'unbalanced_if.c': b'#if A\nint a;\n#if B\nint b;\n#endif\n',
    'empty.c': b'',
    'one_nl.c': b'\n',
    'unchanged.c': b'int a;\n',
    'no_final_nl.c': b'int a;',
    'c99_array.c': b'int a[] = { [1] = 2, [3] = 4 };\nstruct s v = { .a = 1, .b = 2 };\n',
    'class.cpp': b'class A : public B {\npublic:\n   A() : B() {}\n   template<typename T> void f(std::vector<std::vector<T>> v);\n};\n',
    'java.java': b'import z.Z;\nimport a.A;\nclass A<T> { void f() { synchronized(this) { } } }\n',
    'cs.cs': b'using Z;\nusing A;\nclass A { int P { get; set; } void f() { var x = from a in b select a; } }\n',
    'd.d': b'import std.stdio;\nvoid main() { writeln("x"); auto a = [1,2]; }\n',
    'vala.vala': b'using GLib;\nclass A : Object { public signal void s(); }\n',
    'pawn.pawn': b'public f(a)\n{\n  new b = a\n  return b\n}\n',
    'ecma.es': b'function f(a) { var b = a; return b; }\n',
    'tabs_cols.c': b'\t\t\tint a;\n\t\t\t\tint b;\n',
    'long_lines.c': b'int aaaaaaaaaaaaaaaaaaaaaaaaaaaaaa = bbbbbbbbbbbbbbbbbbbbbbbbbbbbbbbbbbb + cccccccccccccccccccccccccccccc + ddddddddddddddddddddddddddddddd;\n',
    'macro_types.c': b'#define FOO(x) x\ntypedef int myint;\nmyint a;\nFOO(myint) b;\n',
    'digraph.c': b'int a<:3:> = <% 1, 2, 3 %>;\n',
    'nul.c': b'int a;\x00\n',
    'garbage.c': b'}}}} ) ) ( {{{ \n',
    # sorting caches: a sorted include group, then a late include after a long gap (early exits of the sorting pass), base-name priority
    'widget.cpp': b'#include "zeta.h"\n#include "widget.h"\n#include "alpha.h"\n\n' + b'int w;\n#include "late.h"\n' + b'\n' * 140 + b'int v;\n#include "later.h"\n/*\n' + b' * long comment\n' * 140 + b' */\nint u;\n',
    'gadget.cpp': b'#include "zeta.h"\n#include "widget.h"\n#include "gadget.h"\n#include "alpha.h"\n#include <vector>\nint g;\n',
    'widget.java': b'import z.Zeta;\nimport a.Alpha;\nimport static q.Q.*;\n\n' + b''.join(b'// l%d\n' % i for i in range(140)) + b'class widget { }\n',
    'gadget.cs': b'using Zeta;\nusing Alpha;\nusing System;\n\n' + b''.join(b'// l%d\n' % i for i in range(140)) + b'using Late;\nclass gadget { }\n',
    'props.m': b'@interface A : NSObject\n@property (nonatomic, readonly, strong) NSString *a;\n@property (copy, atomic) NSString *b;\n@end\n',
}

CONFIGS = {
    'default': '',
    'auto_sort_qt': 'newlines=auto\nmod_sort_include=true\nmod_sort_using=true\nmod_sort_import=true\nuse_options_overriding_for_qt_macros=true\nsp_inside_paren=force\nsp_after_comma=force\nindent_with_tabs=0\nutf8_bom=ignore\n',
    'ben': None,
    'sort_all': 'mod_sort_include=true\nmod_sort_using=true\nmod_sort_import=true\nmod_sort_case_sensitive=true\nmod_sort_incl_import_prioritize_filename=true\nmod_sort_incl_import_prioritize_extensionless=true\nmod_sort_incl_import_prioritize_angle_over_quotes=true\nmod_sort_incl_import_ignore_extension=true\nmod_sort_incl_import_grouping_enabled=true\nmod_sort_oc_properties=true\nmod_remove_duplicate_include=true\n',
    'width': 'code_width=60\nalign_assign_span=2\nalign_var_def_span=2\nalign_right_cmt_span=3\nnl_max=2\nmod_full_brace_if=add\nmod_add_long_ifdef_endif_comment=1\nindent_columns=3\n',
}


def cfg_text(name):
    if name == 'ben':
        return open(os.path.join(REPO, 'etc', 'ben.cfg'), encoding='utf-8', errors='replace').read()
    return CONFIGS[name]


def pool_files(tier, sr):
    """name -> bytes; names are unique and keep the extension."""
    out = dict(POISON)
    files = corpus.files()
    n = 60 if tier == 'quick' else 400
    fr = fixed_rng(PROP, 'victims')
    universe = fr.sample(files, 600)
    for rel, lang in sr.sample(universe, n):
        name = rel.replace('/', '__')
        out[name] = corpus.read(rel)
    return out


def _single(t):
    name, data, cfgname, lopt = t
    d = case_dir('c11s')
    try:
        with open(os.path.join(d, name), 'wb') as f:
            f.write(data)
        r = run.run(build.binary('plain'), ['-q', '-c', fmt.cfg_file(cfg_text(cfgname))] + list(lopt) + [name], cwd=d)
        outp = os.path.join(d, name + '.uncrustify')
        out = open(outp, 'rb').read() if os.path.exists(outp) else None
        hard = bool(r.signal or r.cpu_timeout)
        return ((name, cfgname, lopt), (r.status, out, hard))
    finally:
        shutil.rmtree(d, ignore_errors=True)


def _batch(t):
    names, datas, cfgname, lopt, how = t
    d = case_dir('c11b')
    try:
        for n, x in zip(names, datas):
            with open(os.path.join(d, n), 'wb') as f:
                f.write(x)
        args = ['-q', '-c', fmt.cfg_file(cfg_text(cfgname))] + list(lopt)
        stdin = None
        if how == 'positional':
            args += list(names)
        elif how == 'list':
            with open(os.path.join(d, 'files.lst'), 'w') as f:
                f.write('\n'.join(names) + '\n')
            args += ['-F', 'files.lst']
        else:  # mixed: first half positional, rest via -F -
            k = max(1, len(names) // 2)
            args += ['-F', '-'] + list(names[:k])
            stdin = ('\n'.join(names[k:]) + '\n').encode()
        r = run.run(build.binary('plain'), args, cwd=d, stdin=stdin)
        outs = []
        for n in names:
            p = os.path.join(d, n + '.uncrustify')
            outs.append(open(p, 'rb').read() if os.path.exists(p) else None)
        extra = sorted(set(os.listdir(d)) - set(names) - set(n + '.uncrustify' for n in names) - {'files.lst'})
        return (names, cfgname, lopt, how, r.status, outs, extra, bool(r.signal or r.cpu_timeout))
    finally:
        shutil.rmtree(d, ignore_errors=True)


def check(ctx):
    build.binary('plain')
    quick = ctx.tier == 'quick'
    sr = rng(PROP, 'select')
    pool = pool_files(ctx.tier, sr)
    names = sorted(pool)
    poison = sorted(POISON)
    victims = [n for n in names if n not in POISON]
    lopts = [(), ('-l', 'C'), ('-l', 'CPP'), ('-l', 'OC')]
    batches = []
    # all ordered pairs poisoner -> victim (and poisoner -> poisoner), rotating config / -l / list style
    hows = ['positional', 'list', 'mixed']
    k = 0
    vsel = victims if not quick else sr.sample(victims, 40)
    for p in poison:
        for v in vsel + poison:
            if p == v:
                continue
            fr = fixed_rng(PROP, 'pair:%s:%s' % (p, v))
            if v in POISON:
                # hand-written poisoner -> hand-written victim: under every configuration (each poisoner is aimed at one mechanism,
                # and the mechanism may need the option that switches its pass on)
                for c in sorted(CONFIGS):
                    batches.append(((p, v), c, fr.choice(lopts) if c != 'sort_all' else (), fr.choice(hows)))
            else:
                batches.append(((p, v), fr.choice(sorted(CONFIGS)), fr.choice(lopts), fr.choice(hows)))
    # the ObjC-probe poisoner against every C victim under -l C (the mechanism the statement names)
    for v in vsel:
        if v.startswith('c__'):
            batches.append((('oc_tokens.c', v), 'default', ('-l', 'C'), 'positional'))
    # longer sequences
    for i in range(150 if quick else 3000):
        n = sr.randint(3, 12)
        seq = tuple(sr.sample(names, n))
        batches.append((seq, sr.choice(sorted(CONFIGS)), sr.choice(lopts), sr.choice(hows)))
    need = set()
    for seq, cfgname, lopt, how in batches:
        for n in seq:
            need.add((n, cfgname, lopt))
    singles = dict(pmap(_single, [(n, pool[n], c, l) for (n, c, l) in sorted(need)]))
    ctx.evaluations += len(singles)
    res = pmap(_batch, [(seq, [pool[n] for n in seq], c, l, h) for seq, c, l, h in batches])
    ctx.rule = ('ordered pairs (state-poisoning file -> victim) and seeded sequences of 3..12 files, run as one invocation '
                '(positional / -F list / mixed) and compared file by file with single invocations; non-trivial = distinct batch in '
                'which at least one member was accepted and changed by formatting')
    for seq, cfgname, lopt, how, status, outs, extra, hard in res:
        ctx.evaluations += 1
        ctx.count('batches_%s' % how)
        ctx.count('batch_len_%d' % len(seq) if len(seq) <= 2 else 'batch_len_3plus')
        if hard:
            ctx.count('batch_hard_failure_skipped')
            continue
        exp = [singles[(n, cfgname, lopt)] for n in seq]
        if any(e[2] for e in exp):
            ctx.count('single_hard_failure_skipped')
            continue
        # a member whose single run fails ends the batch (exit()), files after it are not produced: judge up to there
        nontriv = False
        for i, n in enumerate(seq):
            est, eout, _ = exp[i]
            if est != 0:
                if status == 0:
                    ctx.violation('batch-hides-failure|%s' % n, 'batch %s (%s %s %s) exit 0 although %s alone exits %d' % (seq, cfgname, lopt, how, n, est))
                break
            ctx.count('members_compared')
            if eout != outs[i]:
                prev = seq[i - 1] if i else '-'
                ctx.violation('differs|after=%s|victim=%s|%s|%s' % (prev if prev in POISON else 'corpus', n if n in POISON else 'corpus:' + n, cfgname, ' '.join(lopt)),
                              'batch %s config %s %s via %s: output of %s differs from its single-invocation output (previous file: %s)' % (
                                  list(seq), cfgname, list(lopt), how, n, prev),
                              files=dict([(m, pool[m]) for m in seq] + [('config.cfg', cfg_text(cfgname)), ('batch_' + n + '.out', outs[i] or b''), ('single_' + n + '.out', eout or b'')]),
                              argv=['uncrustify', '-c', 'config.cfg'] + list(lopt) + list(seq))
            elif eout is not None and eout != pool[n]:
                nontriv = True
        else:
            if status != 0:
                ctx.violation('batch-status|%s' % cfgname, 'batch %s exits %s although every member alone exits 0' % (list(seq), status))
        if extra:
            ctx.violation('extra-files|%s' % extra[0], 'batch %s created %s' % (list(seq), extra))
        if nontriv:
            ctx.nt(seq, cfgname, lopt, how)
    ctx.sample(dict(batch=list(batches[0][0]), config=batches[0][1], lopt=list(batches[0][2]), how=batches[0][3]))
    ctx.sample(dict(batch=list(batches[-1][0]), config=batches[-1][1], lopt=list(batches[-1][2]), how=batches[-1][3]))
    ctx.extra['poisoners'] = poison
    ctx.assumptions += ['a member that fails alone terminates the batch (exit()); members after it are not judged']
    ctx.require('members_compared', 1000)
