"""C20 - blank-line limits: nl_max, start/end of file, eat_blanks_* next to braces."""
import re

from .. import build, cfggen, corpus, fmt, layout, lex, minimise, registry, tokoracle
from ..common import pmap, rng, fixed_rng

LEVEL = 'exploration'
PROP = 'C20'
NL = re.compile(rb'\r\n|\r|\n')
NOT_COUNTS = {'nl_oc_msg_args_min_params', 'nl_oc_msg_args_max_code_width', 'nl_remove_extra_newlines', 'nl_max',
              'nl_start_of_file_min', 'nl_end_of_file_min'}


OWN = {'nl_max', 'nl_start_of_file', 'nl_start_of_file_min', 'nl_end_of_file', 'nl_end_of_file_min', 'eat_blanks_after_open_brace',
       'eat_blanks_before_close_brace', 'nl_inside_empty_func', 'nl_inside_namespace'}


def eff(assign, by_name, name):
    v = assign.get(name)
    return v if v is not None else by_name[name].default


def count_options(opts):
    return [o for o in opts if o.name.startswith('nl_') and o.type == 'unsigned' and o.name not in NOT_COUNTS]


def judge_output(out, lang, assign, by_name, counts):
    """-> ([(kind, detail)], stats)"""
    v = []
    st = dict(runs=0, max_run=0, sof=0, eof=0, open_braces=0, close_braces=0)
    if out[:3] == b'\xef\xbb\xbf':
        out = out[3:]
    toks = lex.lex(out, lang)
    info = lex.line_info(out, lang, toks)
    real = [t for t in toks if t.kind not in ('dir', 'eod')]
    if not real:
        return v, st
    first, last = real[0], real[-1]
    lines = []
    for li in info:
        if li['start'] >= len(out) and li['start'] == li['end']:
            break
        lines.append(li)
    n = len(lines)

    def blank(k):
        li = lines[k]
        return not out[li['start']:li['end']].strip(b' \t') and not li['inside']

    # ---- nl_max
    N = int(eff(assign, by_name, 'nl_max'))
    asked = max([int(eff(assign, by_name, c)) for c in counts] + [0])
    first_line = next(k for k, li in enumerate(lines) if li['end'] >= first.start)
    last_line = max(k for k, li in enumerate(lines) if li['start'] <= max(last.start, last.end - 1))
    if N > 0 and asked <= N:
        k = first_line + 1
        while k < last_line:
            if blank(k):
                j = k
                while j < last_line and blank(j):
                    j += 1
                run = j - k + 1          # line breaks between the two non-blank lines
                st['runs'] += 1
                st['max_run'] = max(st['max_run'], run)
                # the line before the run must end outside a literal/comment (else the break belongs to that token)
                if run > N and lines[k - 1]['tail'] in (None, 'comment') and not (lines[k - 1]['tail'] == 'comment' and lines[k]['inside']):
                    prev_txt = out[lines[k - 1]['start']:lines[k - 1]['end']].strip()
                    next_txt = out[lines[j]['start']:lines[j]['end']].strip() if j < n else b''
                    v.append(('nl_max', 'nl_max=%d but %d consecutive line breaks after line %d (%r ... %r)' % (N, run, k, prev_txt[:40], next_txt[:40])))
                k = j
            else:
                k += 1
    # ---- start of file
    so = eff(assign, by_name, 'nl_start_of_file')
    smin = int(eff(assign, by_name, 'nl_start_of_file_min'))
    if so != 'ignore' and not (so == 'add' and smin == 0):
        head = out[:first.start]
        if not NL.sub(b'', head).strip(b' \t'):
            c = len(NL.findall(head))
            st['sof'] += 1
            if so == 'remove' and c != 0:
                v.append(('sof', 'nl_start_of_file=remove but the file starts with %d line break(s)' % c))
            elif so == 'force' and c != smin:
                v.append(('sof', 'nl_start_of_file=force, min=%d but the file starts with %d line break(s)' % (smin, c)))
            elif so == 'add' and c < smin:
                v.append(('sof', 'nl_start_of_file=add, min=%d but the file starts with %d line break(s)' % (smin, c)))
    # ---- end of file
    eo = eff(assign, by_name, 'nl_end_of_file')
    emin = int(eff(assign, by_name, 'nl_end_of_file_min'))
    if eo != 'ignore' and not (eo == 'add' and emin == 0) and not (last.kind in ('comment', 'str', 'chr') and last.end >= len(out)):
        tail = out[last.end:]
        if not NL.sub(b'', tail).strip(b' \t'):
            c = len(NL.findall(tail))
            st['eof'] += 1
            if eo == 'remove' and c != 0:
                v.append(('eof', 'nl_end_of_file=remove but the file ends with %d line break(s)' % c))
            elif eo == 'force' and c != emin:
                v.append(('eof', 'nl_end_of_file=force, min=%d but the file ends with %d line break(s)' % (emin, c)))
            elif eo == 'add' and c < emin:
                v.append(('eof', 'nl_end_of_file=add, min=%d but the file ends with %d line break(s)' % (emin, c)))
    # ---- eat_blanks_*
    eat_open = eff(assign, by_name, 'eat_blanks_after_open_brace') == 'true'
    eat_close = eff(assign, by_name, 'eat_blanks_before_close_brace') == 'true'
    exempt = int(eff(assign, by_name, 'nl_inside_empty_func')) > 0 or int(eff(assign, by_name, 'nl_inside_namespace')) > 0
    if (eat_open or eat_close) and not exempt:
        import bisect
        starts = [li['start'] for li in lines]
        by_line_last = {}
        by_line_first = {}
        for t in toks:
            if t.kind in ('dir', 'eod'):
                continue
            a = bisect.bisect_right(starts, t.start) - 1
            b = bisect.bisect_right(starts, max(t.start, t.end - 1)) - 1
            by_line_first.setdefault(a, t)
            by_line_last[b] = t
        for k in range(n):
            li = lines[k]
            if li['pp'] or li['inside']:
                continue
            lt, ft = by_line_last.get(k), by_line_first.get(k)
            if eat_open and lt is not None and lt.kind == 'punct' and lt.text == '{' and not lt.in_dir:
                st['open_braces'] += 1
                if k + 1 < n and blank(k + 1) and k + 1 <= last_line:
                    v.append(('eat-open', 'eat_blanks_after_open_brace=true but a blank line follows the "{" ending line %d (%r)' % (
                        k + 1, out[li['start']:li['end']].strip()[:50])))
            if eat_close and ft is not None and ft.kind == 'punct' and ft.text == '}' and not ft.in_dir:
                st['close_braces'] += 1
                if k > 0 and blank(k - 1) and k - 1 >= first_line:
                    v.append(('eat-close', 'eat_blanks_before_close_brace=true but a blank line precedes the "}" starting line %d (%r)' % (
                        k + 1, out[li['start']:li['end']].strip()[:50])))
    return v, st


EAT_HOSTS = {
    'CPP': b"""#include <vector>

namespace outer
{

namespace inner
{

struct P
{

   int a;

   int b;

};

class K
{

public:

   K();

   int m() const;

private:

   int v;

};

typedef int T1;

typedef long T2;

enum E
{

   A,
   B

};

int f(int a)
{

   int x = a;

   int y = 2;

   if (a)
   {

      x++;

   }

   switch (x)
   {

   case 1:

      y++;

      break;

   }

   return x + y;

}

}

}

extern "C"
{

int g(void);

}

int g(void)
{

}
""",
    'C': b"""struct s
{

   int a;

};

typedef int T1;

static int f(int a)
{

   int x = a;

   /* c */

   if (a)
   {

      x++;

   }
   else
   {

      x--;

   }

   do
   {

      x++;

   } while (x < 3);

   return x;

}

#if A

int g(void)
{

}

#endif
""",
    'CS': b"""using System;

namespace N
{

   namespace M
   {

      public class A
      {

         public int P
         {

            get { return 1; }

            set { }

         }

         int F(int a)
         {

            try
            {

               a++;

            }
            catch (Exception)
            {

            }

            return a;

         }

      }

   }

}
""",
    'JAVA': b"""package p;

public class A
{

   private int x;

   public int f(int a)
   {

      if (a > 0)
      {

         return a;

      }

      return x;

   }

}
""",
}


# hosts for the option sweep: a token that a newline / position option moves sits next to a comment and a blank line
NL_HOSTS = {
    'C': b"""#include <stdio.h>

static int limit = 10;

int check(int a)   // trailing
{

   int x = a;

   if (a > limit) // over the limit
   {

      x++;
   }
   else           // otherwise
   {

      x--;
   }

   for (a = 0; a < 3; a++) /* loop */
   {

      x += a;
   }

   while (x > 9) // shrink
   {

      x--;
   }

   do // once
   {

      x++;
   }
   while (x < 3); // tail

   switch (x) // sel
   {

   case 1: // one

      x = 2;
      break;

   default:

      break;
   }

   x = a +

       limit
       +

       3;

   return(x);
}

struct pt // tag
{

   int a;
};

enum col // tag
{

   RED,

   GREEN
};

int main(void)
{
   return(check(3)
          +

          check(4));
}
""",
    'CPP': b"""#include <vector>

namespace outer // ns
{

class Base
{
public:
   virtual ~Base() {}
};

class Derived
:

   public Base
{
public:
   Derived()
   :

      a_(1)
   ,

      b_(2)
   {

      a_++;
   }

   int get() const // getter
   {

      return a_;
   }

private:
   int a_;

   int b_;
};

template<typename T> // tpl
T pick(T a, T b)
{

   if (a < b) // less
   {

      return b;
   }

   try // risky
   {

      a = b;
   }
   catch (...) // all
   {

      throw;
   }

   return a
          ||

          b;
}

enum class E : int // scoped
{

   A,

   B
};

}
""",
}


def nl_units():
    """Small hosts, one construct each, so that the move made by the option under test is the only change of its pass (a second change
    makes uncrustify run the newline passes again, which can repair what the first pass left behind)."""
    C = {
        'if': 'if (a > limit) // over the limit\n   {\n\n      x++;\n   }',
        'if-2': 'if (a > limit) // over the limit\n   {\n\n\n      x++;\n   }',
        'else': 'if (a)\n   {\n      x++;\n   }\n   else           // otherwise\n   {\n\n      x--;\n   }',
        'brace-else': 'if (a)\n   {\n      x++;\n   } // done\n\n   else\n   {\n      x--;\n   }',
        'elseif': 'if (a)\n   {\n      x++;\n   }\n   else if (x) /* second */\n   {\n\n      x--;\n   }',
        'for': 'for (a = 0; a < 3; a++) /* loop */\n   {\n\n      x += a;\n   }',
        'while': 'while (x > 9) // shrink\n   {\n\n      x--;\n   }',
        'do': 'do // once\n   {\n\n      x++;\n   }\n   while (x < 3); // tail',
        'do-while': 'do\n   {\n      x++;\n   } // body\n\n   while (x < 3);',
        'switch': 'switch (x) // sel\n   {\n\n   case 1: // one\n\n      x = 2;\n      break;\n\n   default:\n\n      break;\n   }',
        'case-brace': 'switch (x)\n   {\n   case 1: // one\n   {\n\n      x = 2;\n      break;\n   }\n   }',
        'arith': 'x = a +\n\n       limit\n       +\n\n       3;',
        'bool': 'x = a &&\n\n       limit\n       ||\n\n       3;',
        'assign': 'x\n\n      =\n\n      a;',
        'comma': 'x = f2(a,\n\n          limit\n          ,\n\n          3);',
        'cond': 'x = a ?\n\n       limit\n       :\n\n       3;',
        'return': 'if (a) // early\n   {\n\n      return(1);\n   }',
        'bare': '{ // block\n\n      x++;\n   }',
    }
    out = []
    for n, body in sorted(C.items()):
        for lang in ('C', 'CPP'):
            out.append(('%s-%s' % (lang.lower(), n), lang, ('static int limit = 10;\nint f2(int a, int b, int c);\n\nint check(int a)\n{\n   int x = a;\n\n   %s\n   return(x);\n}\n' % body).encode()))
    T = {
        'fdef': 'int check(int a) // trailing\n{\n\n   return(a);\n}\n',
        'struct': 'struct pt // tag\n{\n\n   int a;\n};\n',
        'enum': 'enum col // tag\n{\n\n   RED,\n\n   GREEN\n};\n',
        'union': 'union u // tag\n{\n\n   int a;\n};\n',
    }
    for n, text in sorted(T.items()):
        for lang in ('C', 'CPP'):
            out.append(('%s-%s' % (lang.lower(), n), lang, text.encode()))
    X = {
        'class-colon': 'class Base {};\nclass Derived\n:\n\n   public Base\n{\npublic:\n   int value;\n};\n',
        'class-colon-trail': 'class Base {};\nclass Derived :\n\n   public Base\n{\npublic:\n   int value;\n};\n',
        'class-comma': 'class A {};\nclass B {};\nclass Derived : public A\n   ,\n\n   public B\n{\npublic:\n   int value;\n};\n',
        'ctor-colon': 'class K\n{\npublic:\n   K()\n   :\n\n      a_(1)\n   ,\n\n      b_(2)\n   {\n\n      a_++;\n   }\n   int a_;\n   int b_;\n};\n',
        'class': 'class K // tag\n{\n\npublic:\n\n   int a;\n};\n',
        'namespace': 'namespace outer // ns\n{\n\nint v;\n}\n',
        'template': 'template<typename T> // tpl\n\nT pick(T a, T b)\n{\n\n   return a;\n}\n',
        'try': 'void g();\nvoid f()\n{\n   try // risky\n   {\n\n      g();\n   }\n   catch (...) // all\n   {\n\n      throw;\n   }\n}\n',
        'lambda': 'int f(int a)\n{\n   auto l = [&](int z) // lam\n   {\n\n      return z + a;\n   };\n   return l(1);\n}\n',
        'enum-class': 'enum class E : int // scoped\n{\n\n   A,\n\n   B\n};\n',
        'using': 'namespace n1 { int v; }\nusing\n\n   n1::v;\n',
    }
    for n, text in sorted(X.items()):
        out.append(('cpp-%s' % n, 'CPP', text.encode()))
    return out


NL_UNITS = {n: (l, t) for n, l, t in nl_units()}


def usable(x):
    return not (b'INDENT-O' in x or b'asm' in x or b'\x00' in x or x[:2] in (b'\xff\xfe', b'\xfe\xff'))


def _case(t):
    cid, rel, lang, variant, assign = t
    x = EAT_HOSTS[rel[5:]] if rel.startswith('host:') else NL_HOSTS[rel[7:]] if rel.startswith('nlhost:') else NL_UNITS[rel[7:]][1] if rel.startswith('nlunit:') else NL.sub(b'\n', corpus.read(rel))
    if not usable(x):
        return dict(cid=cid, status='skipped')
    if not tokoracle.well_lexed(lex.lex(x, lang)):
        return dict(cid=cid, status='input-not-well-lexed')
    fr = fixed_rng(PROP, 'lay:%s:%d' % (rel, variant))
    if variant > 0:
        y = layout.inject_blank_runs(x, lang, fr, 0, 6, p=fr.choice([0.15, 0.5, 1.0]),
                                     at_start=fr.choice([None, 0, 1, 3, 6]), at_end=fr.choice([None, 0, 1, 2, 5]))
        if lex.code_stream(lex.lex(y, lang)) != lex.code_stream(lex.lex(x, lang)):
            return dict(cid=cid, status='layout-discarded')
        x = y
    b = build.binary('plain')
    by_name = registry.by_name(b)
    counts = [o.name for o in count_options(registry.options(b))]
    f = fmt.fmt(x, lang, cfggen.text(assign))
    if f.out is None:
        return dict(cid=cid, status='hard' if (f.res.signal or f.res.cpu_timeout) else 'rejected')
    if not tokoracle.well_lexed(lex.lex(f.out, lang)):
        return dict(cid=cid, status='output-not-well-lexed')
    v, st = judge_output(f.out, lang, assign, by_name, counts)
    out = []
    seen = set()
    for kind, detail in v:
        if kind in seen:
            continue
        seen.add(kind)
        small = assign
        if len(assign) > 1:
            def pred(sub, kind=kind):
                ff = fmt.fmt(x, lang, cfggen.text(sub))
                if ff.out is None:
                    return False
                vv, _ = judge_output(ff.out, lang, sub, by_name, counts)
                return any(k == kind for k, _ in vv)
            small = minimise.minimise_cfg(assign, pred, max_runs=60)
        out.append((kind, detail, small))
    return dict(cid=cid, status='ok', viols=out, stats=st, nontrivial=f.out != x, input=x if out else None, lang=lang)


def draw_config(fr, opts, counts, clause):
    a = {}
    ws = [o for o in cfggen.ws_options(opts) if not o.name.startswith('nl_') and o.name not in ('indent_single_newlines',)]
    for o in fr.sample(ws, fr.choice([0, 2, 5, 10])):
        v = cfggen.random_value(o, fr)
        if not cfggen.is_slow(o.name, v):
            a[o.name] = v
    if clause in ('max', 'all'):
        N = fr.randint(1, 6)
        a['nl_max'] = str(N)
        for o in fr.sample(counts, fr.choice([0, 1, 3, 8])):
            a[o.name] = str(fr.randint(0, N))
        # newline add/remove options that do not count lines
        nls = [o for o in opts if o.name.startswith('nl_') and o.type in ('iarf', 'bool') and o.cls == 'whitespace'
               and o.name not in ('nl_start_of_file', 'nl_end_of_file')]
        for o in fr.sample(nls, fr.choice([0, 3, 10])):
            a[o.name] = cfggen.random_value(o, fr)
    if clause in ('file', 'all'):
        a['nl_start_of_file'] = fr.choice(['ignore', 'add', 'remove', 'force'])
        a['nl_start_of_file_min'] = str(fr.randint(0, 3))
        a['nl_end_of_file'] = fr.choice(['ignore', 'add', 'remove', 'force'])
        a['nl_end_of_file_min'] = str(fr.randint(0, 3))
        if 'nl_max' in a:
            # "provided no other blank-line count option asks for more than N"
            a['nl_start_of_file_min'] = str(min(int(a['nl_start_of_file_min']), int(a['nl_max'])))
            a['nl_end_of_file_min'] = str(min(int(a['nl_end_of_file_min']), int(a['nl_max'])))
    if clause in ('eat', 'all'):
        a['eat_blanks_after_open_brace'] = fr.choice(['true', 'true', 'false'])
        a['eat_blanks_before_close_brace'] = fr.choice(['true', 'true', 'false'])
        a['nl_inside_empty_func'] = '0'
        a['nl_inside_namespace'] = '0'
        if fr.random() < 0.5 and 'nl_max' not in a:
            a['nl_max'] = str(fr.randint(1, 4))
    return a


def check(ctx):
    b = build.binary('plain')
    quick = ctx.tier == 'quick'
    sr = rng(PROP, 'select')
    opts = registry.options(b)
    counts = count_options(opts)
    files = corpus.files()
    tasks = []
    # fixed core: nl_max 1..6 x start/end options at all four values x minima on 10 files with injected blank runs
    core = [(rel, lang) for rel, lang in files if rel in (
        'c/braces.c', 'c/switch.c', 'c/pp-nest.c', 'cpp/class.h', 'cpp/templates.cpp', 'java/annotation1.java', 'cs/simple.cs', 'd/d.d',
        'oc/Fraction.m', 'c/cmt_multi.c', 'vala/list.vala', 'ecma/example-1.es', 'pawn/functions.pawn')]
    for rel, lang in core:
        for N in range(0, 7):
            for so in ('ignore', 'add', 'remove', 'force'):
                fr = fixed_rng(PROP, 'core:%s:%d:%s' % (rel, N, so))
                if quick and fr.random() > 0.4:
                    continue
                mn = fr.randint(0, 3)
                a = {'nl_max': str(N), 'nl_start_of_file': so, 'nl_start_of_file_min': str(mn if N == 0 else min(mn, N)),
                     'nl_end_of_file': fr.choice(['ignore', 'add', 'remove', 'force']), 'nl_end_of_file_min': str(fr.randint(0, 3) if N == 0 else fr.randint(0, min(3, N))),
                     'eat_blanks_after_open_brace': fr.choice(['true', 'false']), 'eat_blanks_before_close_brace': fr.choice(['true', 'false'])}
                tasks.append(('core:%s:%d:%s' % (rel, N, so), rel, lang, 1 + fr.randrange(3), a))
    # eat_blanks_* against every blank-line count option (and the newline add options) on hosts rich in brace pairs
    for o in counts:
        for val in ('1', '2', '3'):
            for h in sorted(EAT_HOSTS):
                a = {'eat_blanks_after_open_brace': 'true', 'eat_blanks_before_close_brace': 'true', o.name: val}
                tasks.append(('eatsweep:%s=%s:host:%s' % (o.name, val, h), 'host:' + h, h, 0, a))
            if not quick:
                for rel, lang in fixed_rng(PROP, 'eatfiles:' + o.name).sample(files, 12):
                    a = {'eat_blanks_after_open_brace': 'true', 'eat_blanks_before_close_brace': 'true', o.name: val}
                    tasks.append(('eatsweep:%s=%s:%s' % (o.name, val, rel), rel, lang, 1, a))
    # every newline add/remove option and every position option, one at a time at every value, with nl_max and eat_blanks_* on, over hosts
    # where the token the option moves sits next to a comment and a blank line
    movers = [o for o in opts if o.cls == 'whitespace' and ((o.name.startswith('nl_') and o.type in ('iarf', 'bool') and o.name not in OWN)
                                                             or o.name.startswith('pos_'))]
    ctx.count('mover_options', len(movers))
    for o in movers:
        for val in registry.values_for(o):
            if str(val).lower() == str(o.default).lower() or cfggen.is_slow(o.name, val):
                continue
            for u in sorted(NL_UNITS):
                a = {'nl_max': '2', 'eat_blanks_after_open_brace': 'true', 'eat_blanks_before_close_brace': 'true', o.name: str(val)}
                tasks.append(('movers:%s=%s:2:nlunit:%s' % (o.name, val, u), 'nlunit:' + u, NL_UNITS[u][0], 0, a))
            for h in sorted(NL_HOSTS):
                for N in ('2', '1') if not quick else ('2',):
                    a = {'nl_max': N, 'eat_blanks_after_open_brace': 'true', 'eat_blanks_before_close_brace': 'true', o.name: str(val)}
                    tasks.append(('movers:%s=%s:%s:nlhost:%s' % (o.name, val, N, h), 'nlhost:' + h, h, 0, a))
    U = 90000
    ctx.extra['universe'] = U
    for i in sr.sample(range(U), 12000 if quick else U):
        fr = fixed_rng(PROP, 'u%d' % i)
        rel, lang = files[fr.randrange(len(files))]
        clause = fr.choice(['max', 'max', 'file', 'eat', 'all'])
        tasks.append(('u:%d:%s:%s' % (i, clause, rel), rel, lang, fr.randrange(4), draw_config(fr, opts, counts, clause)))
    ctx.rule = ('case = corpus file (all languages, LF) with runs of 0..6 blank lines injected before lines that start outside comments/literals/'
                'directives and at file start/end (token stream checked unchanged), formatted under a drawn config: nl_max 1..6 with blank-line '
                'count options <= nl_max and other newline options; nl_start_of_file/nl_end_of_file x minima; eat_blanks_*.  Oracle on the '
                'lexer-classified output: longest run of line breaks between two tokens outside comments/literals <= nl_max (when no count option '
                'asks for more); line breaks before the first / after the last token as the start/end options prescribe; no blank line after a '
                'line-ending "{" / before a line-starting "}" with eat_blanks_*.  non-trivial = accepted case whose output differs from the input')
    seen = set()
    tot = dict(runs=0, sof=0, eof=0, open_braces=0, close_braces=0)
    ok = []
    for r in pmap(_case, tasks):
        ctx.evaluations += 1
        ctx.count('cases_' + r['cid'].split(':')[0])
        ctx.count('status_' + r['status'])
        if r['status'] != 'ok':
            continue
        ok.append(r)
        for k in tot:
            tot[k] += r['stats'][k]
        if r['nontrivial']:
            ctx.nt(r['cid'])
        for kind, detail, small in r['viols']:
            other = {k: v for k, v in small.items() if k not in OWN}
            if not other:
                optkey = 'file:' + (r['cid'].split(':')[1] if r['cid'].startswith('core:') else r['cid'].split(':')[-1])          # the clause's own options suffice: the finding is tied to the input
            elif len(other) <= 3:
                optkey = ','.join('%s=%s' % kv for kv in sorted(other.items()))
            else:
                optkey = '%d-options:%s' % (len(other), r['cid'])
            key = '%s|%s|%s' % (kind, 'PAWN' if r['lang'] == 'PAWN' else 'any', optkey)
            if kind.startswith('eat-'):
                # the hand-written hosts are a fixed universe of their own: what holds there is keyed apart from corpus shapes
                key += '|host:' + r['cid'].split(':')[-1] if ':host:' in r['cid'] else '|corpus'
            if key in seen:
                continue
            seen.add(key)
            ctx.violation(key, '%s (case %s): %s\n  minimal options: %s' % (kind, r['cid'], detail, small),
                          files={'input': r['input'], 'config.cfg': cfggen.text(small)})
    ctx.count('observed_blank_runs', tot['runs'])
    ctx.count('observed_start_of_file_judged', tot['sof'])
    ctx.count('observed_end_of_file_judged', tot['eof'])
    ctx.count('observed_open_braces_judged', tot['open_braces'])
    ctx.count('observed_close_braces_judged', tot['close_braces'])
    for r in ok[:3]:
        ctx.sample(dict(case=r['cid'], blank_runs=r['stats']['runs'], longest_run=r['stats']['max_run']))
    ctx.assumptions += ['a run is judged against nl_max only when every blank-line count option of the config is <= nl_max (the statement\'s proviso)',
                        'runs before the first and after the last token are judged by the start/end-of-file clause only',
                        'eat_blanks_* is judged whatever the other options say (the statement has no proviso for it); count options that win against it on the pinned tree are listed findings',
                        'files with disabled regions or UTF-16 are left to C07/C09']
    ctx.require('status_ok', 3000)
    ctx.require('observed_blank_runs', 20000)
    ctx.require('observed_start_of_file_judged', 500)
    ctx.require('observed_end_of_file_judged', 500)
    ctx.require('observed_open_braces_judged', 5000)
