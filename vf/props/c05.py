"""C05 - formatting is a fixed point (profiles: byte equality + --check; other configs: second pass accepted)."""
import os
import shutil

import re

from .. import build, corpus, fmt, progen, run
from ..common import VERIF, REPO, case_dir, fixed_rng, pmap, rng, sha

LEVEL = 'exploration'
PROP = 'C05'
PROFILES = ['default', 'ben', 'linux', 'kr-indent', 'gnu-indent', 'msvc', 'mono', 'klaus', 'xsupplicant', 'ben2']


def profile_text(name):
    with open(os.path.join(VERIF, 'profiles', name + '.cfg'), encoding='utf-8', errors='replace') as f:
        return f.read()


def _pair(t):
    """(profile, rel, lang, data|None) -> (verdict, detail)"""
    prof, rel, lang, data = t
    K = profile_text(prof)
    x = data if data is not None else corpus.read(rel)
    a = fmt.fmt(x, lang, K)
    if a.out is None:
        return (prof, rel, 'rejected', a.res.how(), None)
    b = fmt.fmt(a.out, lang, K)
    if b.out is None:
        return (prof, rel, 'second-pass-refused', b.res.how(), a.out)
    if b.out != a.out:
        return (prof, rel, 'unstable', first_diff(a.out, b.out), a.out)
    # --check on the formatted text must pass
    d = case_dir('c05')
    try:
        p = os.path.join(d, 'f' + corpus.ext_for(lang))
        with open(p, 'wb') as f:
            f.write(a.out)
        r = run.run(build.binary('plain'), ['-q', '-c', fmt.cfg_file(K), '-l', lang, '--check', p], cwd=d)
        if r.status != 0:
            return (prof, rel, 'check-fails', r.how(), a.out)
    finally:
        shutil.rmtree(d, ignore_errors=True)
    return (prof, rel, 'ok' if a.out != x else 'ok-unchanged', '', None)


COMMENT_SHAPES = {
    'plain': '/* note %d */',
    'cpp': '// note %d',
    'box': '/**********\n * box %d\n **********/',
    'box-wide': '/*======================*\n *  wide box %d         *\n *======================*/',
    'doxy': '/**\n * doxy %d\n * @param x  y\n */',
    'star-less': '/*\n   plain %d\n      deeper\n   back\n*/',
    'two-line': '/* one %d\n   two */',
    'cpp-run': '// run %d\n// second line\n// third',
    'trailing': None,
}


def gen_source(i):
    """Member i of the generated universe: a C/C++ program with one comment shape at every comment position."""
    fr = fixed_rng(PROP, 'gen%d' % i)
    lang = fr.choice(['C', 'CPP'])
    shape = fr.choice(sorted(COMMENT_SHAPES))
    P = progen.gen(lang, fr, nfuncs=(1, 2), depth_max=fr.choice([2, 3, 4]), stmts=(1, 3), budget=20, comments=True)
    ind = fr.choice([2, 3, 4, 8])
    src, idx = P.render(fr, style=fr.choice(['allman', 'kr', 'mixed']), indent=ind, tabs=fr.random() < 0.3)
    out = []
    n = 0
    for line in src.decode().split('\n'):
        t = line.lstrip(' \t')
        lead = line[:len(line) - len(t)]
        if t.startswith(('/* note', '// note', '/* a\tb')):
            n += 1
            if COMMENT_SHAPES[shape] is None:
                if out and out[-1].rstrip().endswith(';'):
                    out[-1] = out[-1] + '   /* trailing %d */' % n
                continue
            for cl in (COMMENT_SHAPES[shape] % n).split('\n'):
                out.append(lead + cl)
        else:
            out.append(line)
    return lang, shape, '\n'.join(out).encode()


def cmtcol_source(c, d):
    def at(code, col, cmt):
        return code + ' ' * max(1, col - 1 - len(code)) + cmt
    L = ['void f(void)', '{',
         at('   int a;', c, '// first line of the remark'),
         ' ' * (c + d - 1) + '// the remark continues here',
         '   int bcdefghij; // another remark',
         '   if (a)', '   {',
         at('      int q;', c + 3, '/* inner remark */'),
         ' ' * (c + 3 + d - 1) + '/* it continues */',
         '      int longer_name_here; /* other */',
         '   }', '}', '']
    return '\n'.join(L).encode()


def _gen_pair(t):
    prof, i = t
    lang, shape, x = gen_source(i)
    r = _pair((prof, 'gen%d' % i, lang, x))
    return r + (shape, x)


def first_diff(a, b):
    la, lb = a.split(b'\n'), b.split(b'\n')
    for i, (p, q) in enumerate(zip(la, lb)):
        if p != q:
            return 'line %d: %r -> %r' % (i + 1, p[:80], q[:80])
    return 'length %d -> %d lines' % (len(la), len(lb))


def _weak(t):
    tid, cfgrel, inprel, lang = t
    K = open(os.path.join(REPO, 'tests', 'config', cfgrel), 'rb').read()
    x = corpus.read(inprel)
    cwd_cfg = os.path.join(REPO, 'tests', 'config')
    a = fmt.fmt(x, lang, K)
    if a.out is None:
        return (tid, 'rejected', a.res.how())
    b = fmt.fmt(a.out, lang, K)
    if b.out is None:
        return (tid, 'second-pass-refused', b.res.how() + ' ' + b.res.stderr[-200:].decode(errors='replace'))
    return (tid, 'ok' if b.out == a.out else 'ok-but-unstable', '')


def check(ctx):
    build.binary('plain')
    quick = ctx.tier == 'quick'
    sr = rng(PROP, 'select')
    files = [(r, l) for r, l in corpus.files() if l in ('C', 'CPP')]
    universe = [(p, r, l, None) for p in PROFILES for r, l in files]
    ctx.extra['universe_pairs'] = len(universe)
    sel = sr.sample(universe, len(universe) * 40 // 100) if quick else universe
    ctx.exhaustive = not quick
    ctx.rule = ('fixed universe = C/C++ corpus files x %d curated profiles (quick: seeded 40 %% slice, thorough: all), each pair '
                'F(x), F(F(x)), --check F(x); plus the test-suite (config, input) pairs for the weaker second-pass-accepted claim; '
                'non-trivial = distinct pair accepted by uncrustify whose first pass changed the bytes' % len(PROFILES))
    for prof, rel, verdict, detail, out in pmap(_pair, sel):
        ctx.evaluations += 1
        ctx.count('pair_' + verdict)
        if verdict == 'ok':
            ctx.nt(prof, rel)
        elif verdict in ('unstable', 'second-pass-refused', 'check-fails'):
            ctx.violation('%s|%s|%s' % (verdict, prof, rel), '%s: profile %s, file tests/input/%s: %s' % (verdict, prof, rel, detail),
                          files={'profile.cfg': profile_text(prof), 'input': corpus.read(rel), 'pass1': out},
                          argv=['uncrustify', '-c', 'profile.cfg', '-l', dict(files)[rel], '-f', 'pass1'])
    # generated programs (fixed universe) with a comment shape at every comment position, space- or tab-indented, x profiles
    GU = 20000
    ctx.extra['generated_universe'] = GU * len(PROFILES)
    gsel = [(sr.choice(PROFILES), i) for i in sr.sample(range(GU), 1500 if quick else 12000)]
    for prof, rel, verdict, detail, out, shape, x in pmap(_gen_pair, gsel):
        ctx.evaluations += 1
        ctx.count('gen_' + verdict)
        if verdict == 'ok':
            ctx.nt(prof, rel)
        elif verdict in ('unstable', 'second-pass-refused', 'check-fails'):
            m = re.match(r"line \d+: b(['\"])(.*)\1 -> b(['\"])(.*)\3$", detail)
            what = 'other'
            if m:
                p1, p2 = m.group(2), m.group(4)
                t1, t2 = p1.replace('\\t', ' ').strip(), p2.replace('\\t', ' ').strip()
                if t1.startswith(('*', '/*', '//')) or t2.startswith(('*', '/*', '//')):
                    what = 'comment-line|' + shape
                elif 'else' in t1 and re.sub(r'\s+', '', t1) == re.sub(r'\s+', '', t2):
                    what = 'else-brace-spacing'
                elif t1.rstrip().endswith('{') and t1.rstrip()[:-1].rstrip() == t2.rstrip():
                    what = 'brace-removed-on-second-pass'
                elif t2.rstrip().endswith('{') and t2.rstrip()[:-1].rstrip() == t1.rstrip():
                    what = 'brace-added-on-second-pass'
                elif re.sub(r'\s+', '', t1) == re.sub(r'\s+', '', t2):
                    what = 'spacing'
                elif len(p1) >= 78:
                    what = 'long-line'
            ctx.violation('%s-generated|%s|%s' % (verdict, prof, what), '%s: profile %s, generated program %s (comment shape %s): %s' % (
                verdict, prof, rel, shape, detail), files={'profile.cfg': profile_text(prof), 'input': x, 'pass1': out},
                argv=['uncrustify', '-c', 'profile.cfg', '-f', 'pass1'])
    # hand-written hosts dense in the shapes the code-modifying options rewrite (braced cases, nested switches, if chains) x profiles
    from .c04 import HOSTS as MOD_HOSTS
    hsel = [(prof, 'host-' + hl, hl, MOD_HOSTS[hl]) for prof in PROFILES for hl in ('C', 'CPP')]
    for prof, rel, verdict, detail, out in pmap(_pair, hsel):
        ctx.evaluations += 1
        ctx.count('host_' + verdict)
        if verdict == 'ok':
            ctx.nt(prof, rel)
        elif verdict in ('unstable', 'second-pass-refused', 'check-fails'):
            ctx.violation('%s-host|%s|%s' % (verdict, prof, rel), '%s: profile %s, %s: %s' % (verdict, prof, rel, detail),
                          files={'profile.cfg': profile_text(prof), 'input': MOD_HOSTS[rel[5:]], 'pass1': out},
                          argv=['uncrustify', '-c', 'profile.cfg', '-f', 'pass1'])
    # a trailing comment at every column with a continuation comment line below it at every small offset, next to a longer line
    # with its own trailing comment (the trailing-comment aligner and the whole-line comment indenter meet here) x profiles
    csel = []
    for c in range(2, 31):
        for d in (-3, -2, -1, 0, 1, 2, 3):
            if c + d < 1:
                continue
            csel.extend((prof, 'cmtcol:%d:%+d' % (c, d), 'C', cmtcol_source(c, d)) for prof in PROFILES)
    for prof, rel, verdict, detail, out in pmap(_pair, csel):
        ctx.evaluations += 1
        ctx.count('cmtcol_' + verdict)
        if verdict == 'ok':
            ctx.nt(prof, rel)
        elif verdict in ('unstable', 'second-pass-refused', 'check-fails'):
            _, c, d = rel.split(':')
            ctx.violation('%s-cmtcol|%s|%s|%s' % (verdict, prof, c, d), '%s: profile %s, trailing comment at column %s with a continuation line at offset %s: %s' % (
                verdict, prof, c, d, detail), files={'profile.cfg': profile_text(prof), 'input': cmtcol_source(int(c), int(d)), 'pass1': out},
                argv=['uncrustify', '-c', 'profile.cfg', '-f', 'pass1'])
    weak = [t for t in corpus.tests() if t[3]]
    wsel = sr.sample(weak, 800) if quick else weak
    for tid, verdict, detail in pmap(_weak, wsel):
        ctx.evaluations += 1
        ctx.count('weak_' + verdict)
        if verdict in ('ok', 'ok-but-unstable'):
            ctx.nt('weak', tid)
        if verdict == 'second-pass-refused':
            ctx.violation('weak-second-pass-refused|%s' % tid, 'test pair %s: second pass refused its own output: %s' % (tid, detail))
    ctx.sample(dict(profile=sel[0][0], file=sel[0][1], steps=['F(x)', 'F(F(x)) == F(x)', '--check F(x) exits 0']))
    ctx.sample(dict(weak_pair=wsel[0][:3], steps=['F(x) exit 0', 'F(F(x)) exit 0']))
    ctx.assumptions += ['determinism of F (C10) makes history 3 follow from history 2',
                        'profiles: etc/ styles + pinned overrides (profiles/derive.py); sun, freebsd and linux-indent are not in the curated set']
    ctx.require('pair_ok', 200)
