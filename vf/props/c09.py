"""C09 - encoding is transparent: commutes with transcoding, Unicode round-trips, invalid input never silently altered."""
import os
import re

from .. import build, corpus, fmt
from ..common import pmap, rng, fixed_rng, sha

LEVEL = 'exploration'
PROP = 'C09'
BOM8 = b'\xef\xbb\xbf'
ENCODINGS = ['utf8', 'utf8bom', 'utf16le', 'utf16be']
BLOCK = 2048                  # scalar values per sweep file
NSCALARS = 0x110000 - 0x800


def enc(t, e):
    if e == 'utf8' or e == 'ascii':
        return t.encode('utf-8')
    if e == 'utf8bom':
        return BOM8 + t.encode('utf-8')
    if e == 'utf16le':
        return b'\xff\xfe' + t.encode('utf-16-le')
    if e == 'utf16be':
        return b'\xfe\xff' + t.encode('utf-16-be')
    raise ValueError(e)


def dec(b, e):
    if e in ('utf8', 'ascii'):
        return b.decode('utf-8')
    if e == 'utf8bom':
        if not b.startswith(BOM8):
            raise ValueError('BOM missing')
        return b[3:].decode('utf-8')
    if e == 'utf16le':
        if not b.startswith(b'\xff\xfe'):
            raise ValueError('BOM missing')
        return b[2:].decode('utf-16-le')
    if e == 'utf16be':
        if not b.startswith(b'\xfe\xff'):
            raise ValueError('BOM missing')
        return b[2:].decode('utf-16-be')


def scalar(i):
    """i-th Unicode scalar value (surrogates skipped)."""
    return i if i < 0xD800 else i + 0x800


SKIP_ASCII = set('"\\*/\'') | {chr(c) for c in range(0x20)} | {chr(0x7f)}


def sweep_text(block):
    """A C++ file carrying the scalars of one block in a block comment, a // comment, string literals and identifiers."""
    lo = block * BLOCK
    chars = [chr(scalar(i)) for i in range(lo, min(lo + BLOCK, NSCALARS))]
    chars = [c for c in chars if c not in SKIP_ASCII and c != '﻿' or (c == '﻿')]
    chars = [c for c in chars if c not in SKIP_ASCII]
    rows = [chars[i:i + 64] for i in range(0, len(chars), 64)]
    out = ['/* block %d' % block]
    for r in rows:
        out.append(' * ' + ' '.join(r))
    out.append(' */')
    for r in rows:
        out.append('// ' + ' '.join(r))
    out.append('void f()')
    out.append('{')
    for k, r in enumerate(rows):
        out.append('   const char *s%d = "%s";' % (k, ' '.join(r)))
    for k, r in enumerate(rows):
        ids = [c for c in r if ord(c) >= 0x80]
        if ids:
            out.append('   int v%d_%s = %d;' % (k, '_'.join(ids), k))
    out.append('}')
    return '\n'.join(out) + '\n', chars


def non_ascii(s):
    return [c for c in s if ord(c) >= 0x80]


def _sweep(t):
    block, encs = t
    text, chars = sweep_text(block)
    K = 'cmt_width=0\ncode_width=0\n'
    ref = fmt.fmt(enc(text, 'utf8'), 'CPP', K)
    probs = []
    runs = 1
    if ref.out is None:
        return dict(block=block, probs=[('sweep-rejected', 'block %d (U+%04X..): UTF-8 form rejected: %s' % (block, scalar(block * BLOCK), ref.res.how()))], runs=1, scalars=0)
    try:
        rt = ref.out.decode('utf-8')
    except UnicodeDecodeError as e:
        return dict(block=block, probs=[('sweep-output-not-utf8', 'block %d: output is not valid UTF-8: %s' % (block, e))], runs=1, scalars=0)
    # every scalar reproduced, in order, the expected number of times
    if non_ascii(rt) != non_ascii(text):
        a, b = non_ascii(text), non_ascii(rt)
        i = next((k for k, (p, q) in enumerate(zip(a, b)) if p != q), min(len(a), len(b)))
        probs.append(('sweep-scalar-altered', 'block %d: non-ASCII scalar sequence changed at #%d: U+%04X -> %s' % (
            block, i, ord(a[i]) if i < len(a) else -1, 'U+%04X' % ord(b[i]) if i < len(b) else 'missing')))
    for e in encs:
        if e == 'utf8':
            continue
        r = fmt.fmt(enc(text, e), 'CPP', K)
        runs += 1
        if r.out is None:
            probs.append(('sweep-rejected|' + e, 'block %d: %s form rejected (%s) though UTF-8 form is accepted' % (block, e, r.res.how())))
            continue
        if r.out != enc(rt, e):
            probs.append(('sweep-not-commuting|' + e, 'block %d (U+%04X..U+%04X): format(%s(x)) != %s(format(utf8(x)))' % (
                block, scalar(block * BLOCK), scalar(min(block * BLOCK + BLOCK, NSCALARS) - 1), e, e)))
    return dict(block=block, probs=probs, runs=runs, scalars=len(chars))


CONFIGS = {'default': '', 'ws': 'indent_columns=3\nindent_with_tabs=0\nalign_assign_span=2\nalign_right_cmt_span=3\ncode_width=100\nsp_arith=force\n'}


def _corpus(t):
    rel, lang, cfgname = t
    raw = corpus.read(rel)
    if raw.startswith(BOM8):
        raw = raw[3:]
    try:
        text = raw.decode('utf-8')
    except UnicodeDecodeError:
        return dict(skip='not-utf8')
    if '\x00' in text or '﻿' in text:
        return dict(skip='nul-or-bom-inside')
    K = CONFIGS[cfgname]
    ref = fmt.fmt(enc(text, 'utf8'), lang, K)
    if ref.out is None:
        return dict(skip='rejected')
    try:
        rt = ref.out.decode('utf-8')
    except UnicodeDecodeError:
        return dict(skip=None, rel=rel, cfg=cfgname, runs=1, nontrivial=False, ascii=False,
                    probs=[('output-not-utf8', 'output of a valid UTF-8 input is not valid UTF-8')])
    probs = []
    runs = 1
    is_ascii = all(ord(c) < 0x80 for c in text)
    if is_ascii and any(ord(c) >= 0x80 for c in rt):
        probs.append(('ascii-gains-non-ascii', 'ASCII input, non-ASCII output'))
    for e in ENCODINGS[1:]:
        r = fmt.fmt(enc(text, e), lang, K)
        runs += 1
        if r.out is None:
            probs.append(('rejected|' + e, '%s form rejected (%s), UTF-8 form accepted' % (e, r.res.how())))
        elif r.out != enc(rt, e):
            try:
                same_text = dec(r.out, e) == rt
            except (ValueError, UnicodeDecodeError):
                same_text = False
            probs.append(('not-commuting|' + e, 'format(%s(x)) != %s(format(x)); %s' % (
                e, e, 'text equal, encoding/BOM differs' if same_text else 'text differs')))
    return dict(skip=None, rel=rel, cfg=cfgname, runs=runs, nontrivial=(rt != text), ascii=is_ascii, probs=probs)


TINY = ['', '\n', ';', 'a', 'a\n', '//', '/**/', '\u00e9', '// \u00e9', '"\u6f22"', '\n\n', ' ', '\t\n']


def _tiny(t):
    """Commutation on documents of 0..4 characters (a file that is nothing but its BOM is the encoding of the empty document)."""
    text, cfgname = t
    K = CONFIGS[cfgname]
    ref = fmt.fmt(enc(text, 'utf8'), 'C', K)
    if ref.out is None:
        return dict(text=text, cfg=cfgname, runs=1, probs=[], status='rejected')
    rt = ref.out.decode('utf-8')
    probs = []
    runs = 1
    for e in ENCODINGS[1:]:
        r = fmt.fmt(enc(text, e), 'C', K)
        runs += 1
        if r.out is None:
            probs.append(('rejected|' + e, '%s form of %r rejected (%s), UTF-8 form accepted' % (e, text, r.res.how())))
        elif r.out != enc(rt, e):
            probs.append(('not-commuting|' + e, 'format(%s(%r)) = %r, %s(format(x)) = %r' % (e, text, r.out[:24], e, enc(rt, e)[:24])))
    return dict(text=text, cfg=cfgname, runs=runs, probs=probs, status='ok')


def option_cases():
    """(name, input bytes, config, expectation) - expectation: ('bytes', b) | ('refused',) | ('observe',)"""
    t = 'int a; // ä€\U0001F600\nint üb;\n'
    ft = None  # formatted text is computed at run time from the utf8 reference
    cases = []
    for bom_opt in ('ignore', 'add', 'remove', 'force'):
        for e in ('utf8', 'utf8bom', 'utf16le', 'utf16be'):
            for force in (False, True):
                cases.append(dict(name='bom=%s,in=%s,force=%s' % (bom_opt, e, force), text=t, e=e,
                                  cfg='utf8_bom=%s\nutf8_force=%s\n' % (bom_opt, 'true' if force else 'false'),
                                  bom_opt=bom_opt, force=force))
    return cases


def expected_encoding(e, bom_opt, force):
    """Documented outcome: same encoding (or UTF-8 when forced); BOM iff input had one unless utf8_bom says otherwise; UTF-16 always BOM."""
    out_e = e
    if force:
        out_e = 'utf8bom' if e in ('utf8bom', 'utf16le', 'utf16be') else 'utf8'
    if out_e in ('utf8', 'utf8bom'):
        if bom_opt in ('add', 'force'):
            out_e = 'utf8bom'
        elif bom_opt == 'remove':
            out_e = 'utf8'
    return out_e


def _option(c):
    ref = fmt.fmt(enc(c['text'], 'utf8'), 'C', '')
    rt = ref.out.decode('utf-8')
    r = fmt.fmt(enc(c['text'], c['e']), 'C', c['cfg'])
    if r.out is None:
        return (c['name'], [('option-rejected', '%s: rejected (%s)' % (c['name'], r.res.how()))])
    want = expected_encoding(c['e'], c['bom_opt'], c['force'])
    if r.out != enc(rt, want):
        return (c['name'], [('option-encoding|%s' % c['name'], '%s: expected %s output, got %r...' % (c['name'], want, r.out[:12]))])
    return (c['name'], [])


INVALID = {
    'overlong-2-nul': b'\xc0\x80', 'overlong-2-A': b'\xc1\x81', 'overlong-3': b'\xe0\x80\xaf', 'overlong-3-slash': b'\xe0\x81\x81',
    'overlong-4': b'\xf0\x80\x80\xaf', 'overlong-4b': b'\xf0\x8f\xbf\xbf', 'five-byte': b'\xf8\x88\x80\x80\x80',
    'six-byte': b'\xfc\x84\x80\x80\x80\x80', 'truncated-2': b'\xc3', 'truncated-3': b'\xe2\x82', 'truncated-4': b'\xf0\x9f\x98',
    'stray-continuation': b'\x80', 'stray-continuations': b'\xbf\xbf', 'cesu-surrogates': b'\xed\xa0\xbd\xed\xb8\x80',
    'lone-high-surrogate-utf8': b'\xed\xa0\x80', 'lone-low-surrogate-utf8': b'\xed\xb0\x80', 'above-10ffff': b'\xf4\x90\x80\x80',
    'fe': b'\xfe', 'ff': b'\xff', 'latin1-word': b'caf\xe9', 'valid-then-invalid': b'\xc3\xa9\xc3',
}


def _invalid(t):
    name, seq, where = t
    if where == 'comment':
        x = b'int a; /* x ' + seq + b' y */\nint b;\n'
    elif where == 'string':
        x = b'const char *s = "x ' + seq + b' y";\n'
    elif where == 'cppcmt':
        x = b'int a; // x ' + seq + b' y\nint b;\n'
    else:
        x = b'int a' + seq + b'b;\n'
    r = fmt.fmt(x, 'C', '')
    if r.out is None:
        if r.res.signal or r.res.cpu_timeout:
            return (name, where, 'hard', [('invalid-crash', '%s in %s: %s' % (name, where, r.res.how()))])
        return (name, where, 'refused', [])
    runs_in = re.findall(rb'[\x80-\xff]+', x)
    runs_out = re.findall(rb'[\x80-\xff]+', r.out)
    if runs_in != runs_out:
        return (name, where, 'altered', [('invalid-altered|' + name, 'invalid sequence %s (%r) in a %s: non-ASCII bytes %r became %r' % (name, seq, where, runs_in, runs_out))])
    return (name, where, 'passed-through', [])


def _utf16_invalid(t):
    name, x = t
    r = fmt.fmt(x, 'C', '')
    if r.out is None:
        if r.res.signal or r.res.cpu_timeout:
            return (name, 'hard', [('invalid-crash', '%s: %s' % (name, r.res.how()))])
        return (name, 'refused', [])
    return (name, 'accepted', [])


def check(ctx):
    build.binary('plain')
    quick = ctx.tier == 'quick'
    sr = rng(PROP, 'select')
    ctx.rule = ('(a) scalar sweep: blocks of %d scalar values in a block comment, a // comment, string literals and identifiers, formatted in 4 encodings '
                '(quick: seeded 1/2 of the blocks + boundary blocks; thorough: all %d blocks); (b) corpus texts transcoded to 4 encodings; '
                '(c) utf8_bom x utf8_force x input encoding table; (d) invalid sequences in 4 positions; '
                'non-trivial = distinct case whose UTF-8 reference run is accepted and changes the bytes' % (BLOCK, (NSCALARS + BLOCK - 1) // BLOCK))
    nblocks = (NSCALARS + BLOCK - 1) // BLOCK
    if quick:
        boundary = {0, 1, 0x7ff // BLOCK, 0xd7ff // BLOCK, (0xe000 - 0x800) // BLOCK, (0xfeff - 0x800) // BLOCK, (0xffff - 0x800) // BLOCK,
                    (0x10000 - 0x800) // BLOCK, (0x1ffff - 0x800) // BLOCK, (0x2028 // BLOCK), nblocks - 1}
        blocks = sorted(boundary | set(sr.sample(range(nblocks), nblocks // 2)))
    else:
        blocks = list(range(nblocks))
    ctx.exhaustive = not quick
    total_scalars = 0
    for r in pmap(_sweep, [(b, ENCODINGS) for b in blocks], chunksize=2):
        ctx.evaluations += r['runs']
        ctx.count('sweep_blocks')
        total_scalars += r['scalars']
        if not r['probs']:
            ctx.nt('sweep', r['block'])
        for kind, desc in r['probs']:
            ctx.violation(kind, desc, files={'input.cpp': sweep_text(r['block'])[0]})
    ctx.counters['sweep_scalars_covered'] = total_scalars
    files = corpus.files()
    sel = sr.sample(files, 600) if quick else files
    for r in pmap(_corpus, [(rel, lang, sr.choice(sorted(CONFIGS))) for rel, lang in sel]):
        if r['skip']:
            ctx.count('corpus_skipped_' + r['skip'])
            continue
        ctx.evaluations += r['runs']
        ctx.count('corpus_ascii' if r['ascii'] else 'corpus_non_ascii')
        if r['nontrivial']:
            ctx.nt(r['rel'], r['cfg'])
        for kind, desc in r['probs']:
            ctx.violation('%s|%s|%s' % (kind, r['cfg'], r['rel']), 'tests/input/%s config %s: %s' % (r['rel'], r['cfg'], desc),
                          files={'input': corpus.read(r['rel']), 'config.cfg': CONFIGS[r['cfg']]})
    for r in pmap(_tiny, [(t, c) for t in TINY for c in sorted(CONFIGS)]):
        ctx.evaluations += r['runs']
        ctx.count('tiny_documents_' + r['status'])
        for kind, desc in r['probs']:
            ctx.violation('%s|tiny|%s|%r' % (kind, r['cfg'], r['text']), 'document %r config %s: %s' % (r['text'], r['cfg'], desc),
                          files={'input.c': enc(r['text'], 'utf8'), 'config.cfg': CONFIGS[r['cfg']]})
    for name, probs in pmap(_option, option_cases()):
        ctx.evaluations += 1
        ctx.count('option_cases')
        for kind, desc in probs:
            ctx.violation(kind, desc)
    inv = [(n, s, w) for n, s in sorted(INVALID.items()) for w in ('comment', 'string', 'cppcmt', 'identifier')]
    for name, where, verdict, probs in pmap(_invalid, inv):
        ctx.evaluations += 1
        ctx.count('invalid_' + verdict)
        for kind, desc in probs:
            ctx.violation(kind, desc, files={'seq.bin': INVALID[name]})
    u16 = {
        'lone-high-surrogate-le': b'\xff\xfe' + 'int a; // '.encode('utf-16-le') + b'\x00\xd8' + '\n'.encode('utf-16-le'),
        'lone-low-surrogate-le': b'\xff\xfe' + 'int a; // '.encode('utf-16-le') + b'\x00\xdc' + '\n'.encode('utf-16-le'),
        'swapped-surrogates-be': b'\xfe\xff' + 'int a; // '.encode('utf-16-be') + b'\xdc\x00\xd8\x00' + '\n'.encode('utf-16-be'),
        'odd-length-le': b'\xff\xfe' + 'int a;\n'.encode('utf-16-le') + b'\x41',
        'bom-only-le': b'\xff\xfe', 'bom-only-be': b'\xfe\xff', 'bom-only-utf8': BOM8,
        'high-surrogate-at-eof': b'\xff\xfe' + 'int a;\n'.encode('utf-16-le') + b'\x3d\xd8',
    }
    for name, verdict, probs in pmap(_utf16_invalid, sorted(u16.items())):
        ctx.evaluations += 1
        ctx.count('utf16_invalid_' + verdict)
        for kind, desc in probs:
            ctx.violation(kind, desc)
        if verdict == 'accepted' and 'surrogate' in name:
            ctx.violation('utf16-invalid-accepted|' + name, 'invalid UTF-16 (%s) accepted' % name, files={'input.c': u16[name]})
    # BOM-less UTF-16 (heuristic): must come back as UTF-16 of the same text (with BOM) or be refused
    t = 'int a;\nint b;\n'
    for e, bom in (('utf-16-le', b'\xff\xfe'), ('utf-16-be', b'\xfe\xff')):
        r = fmt.fmt(t.encode(e), 'C', '')
        ctx.evaluations += 1
        ref = fmt.fmt(t.encode(), 'C', '').out.decode()
        if r.out is not None and r.out != bom + ref.encode(e):
            ctx.violation('bomless-utf16|' + e, 'BOM-less %s input: output is neither refused nor the UTF-16 encoding (with BOM) of the formatted text: %r' % (e, r.out[:20]))
        ctx.count('bomless_utf16_' + ('accepted' if r.out is not None else 'refused'))
    ctx.sample(dict(sweep_block=blocks[1], first_scalar='U+%04X' % scalar(blocks[1] * BLOCK), encodings=ENCODINGS))
    ctx.sample(dict(invalid=['overlong-2-A in comment', 'cesu-surrogates in string'], option_case=option_cases()[5]['name']))
    ctx.assumptions += ['ASCII delimiters that would end the construct (quote, backslash, star, slash, controls) are excluded from the sweep by rule',
                        'ASCII input with utf8_bom=add/force is observed, not judged (documentation leaves it open)',
                        'U+FEFF inside the text is swept like any other scalar']
    ctx.require('sweep_blocks', 50)
    ctx.require('corpus_ascii', 100)
