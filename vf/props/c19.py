"""C19 - spacing options mean what they say at the places they are reported to govern (SPACE hook joined with output bytes)."""
import json
import os
import re

from .. import build, cfggen, corpus, fmt, lex, registry, tokoracle
from ..common import VERIF, pmap, rng, fixed_rng
from .c07 import HOSTS

LEVEL = 'exploration'
PROP = 'C19'
VALS = ['ignore', 'add', 'remove', 'force']
AV = {0: 'ignore', 1: 'add', 2: 'remove', 3: 'force'}
BASE = {'use_options_overriding_for_qt_macros': 'false', 'indent_with_tabs': '0', 'align_with_tabs': 'false', 'align_keep_tabs': 'false'}
EXEMPT_FILE = os.path.join(VERIF, 'data', 'c19_exemptions.json')
WS = b' \t\r\n\x0c'


def is_id(c):
    return c.isalnum() or c == '_' or c == '$' or ord(c) > 127


def map_chunks(out, O):
    """Locate every O-stage chunk in the output bytes by one sequential scan.  -> [(start, end) | None] or None when the scan loses track."""
    pos = 0
    n = len(out)
    res = []
    for c in O:
        if c.type == 'NEWLINE' or c.text == '':
            res.append(None)
            continue
        while pos < n and out[pos] in WS:
            pos += 1
        if c.type == 'NL_CONT':
            if out[pos:pos + 1] != b'\\':
                return None
            e = pos + 1
            while e < n and out[e] in b' \t':
                e += 1
            if out[e:e + 2] == b'\r\n':
                e += 2
            elif out[e:e + 1] in (b'\n', b'\r'):
                e += 1
            res.append((pos, pos + 1))
            pos = e
            continue
        if c.type.startswith('COMMENT'):
            if out.startswith(b'//', pos):
                e = out.find(b'\n', pos)
                e = n if e < 0 else e
                extra = c.text.count('\n')
                # a cpp comment chunk that holds several lines (backslash-continued or grouped)
                while extra > 0 and e < n:
                    e2 = out.find(b'\n', e + 1)
                    e = n if e2 < 0 else e2
                    extra -= 1
            elif out.startswith(b'/*', pos):
                e = out.find(b'*/', pos + 2)
                if e < 0:
                    return None
                e += 2
            elif out.startswith(b'/+', pos):
                depth, e = 1, pos + 2
                while e < n and depth:
                    if out.startswith(b'/+', e):
                        depth += 1
                        e += 2
                    elif out.startswith(b'+/', e):
                        depth -= 1
                        e += 2
                    else:
                        e += 1
            else:
                return None
            res.append((pos, e))
            pos = e
            continue
        t = c.text.encode('utf-8', 'surrogatepass') if all(ord(ch) < 0x110000 for ch in c.text) else None
        if t is None:
            return None
        if not out.startswith(t, pos):
            t2 = t.replace(b'\n', b'\r\n')
            if out.startswith(t2, pos):
                t = t2
            else:
                return None
        res.append((pos, pos + len(t)))
        pos += len(t)
    return res


NAMED = {'sp_return', 'sp_case_label', 'sp_macro', 'sp_macro_func'}      # the statement's list: return/case + operand, macro name + body
_relex_cache = {}


def relex_differs(ta, tb, lang):
    """Would the two tokens written without a blank lex differently (decided by the independent lexer, not by uncrustify's flag)?"""
    key = (ta[-12:], tb[:12], lang)
    if key in _relex_cache:
        return _relex_cache[key]
    a, b = ta[-12:], tb[:12]
    try:
        joined = [t.text for t in lex.lex((a + b).encode('latin-1', 'replace'), lang) if t.kind not in ('dir', 'eod')]
        sep = [t.text for t in lex.lex((a + ' ' + b).encode('latin-1', 'replace'), lang) if t.kind not in ('dir', 'eod')]
    except Exception:
        joined, sep = None, []
    res = joined != sep or (a[-1:] + b[:1]) in ('<:', ':>', '<%', '%>', '%:')      # digraphs (pre-C++11 '<::' included)
    _relex_cache[key] = res
    return res


def rule_name(r):
    """Strip the decorations log_rule() callers add (' | ADD', '/FORCE', ...)."""
    return re.split(r'[ |/:(]', r.strip(), 1)[0]


def load_exemptions():
    try:
        with open(EXEMPT_FILE) as f:
            return json.load(f)
    except FileNotFoundError:
        return {}


def judge(x, out, dump, space, assign, sp_names, exempt, lang):
    """-> (violations [(kind, rule, detail)], stats)"""
    st = dict(records=0, judged=0, unattributed=0, unmapped=0, not_adjacent=0, exempt_fusion=0, exempt_rule=0, qt=0,
              comment_second=0, force_min_gt1=0, forced_without_hazard=0, files_aligned=0)
    rules_seen = {}
    v = []
    O = dump['O']
    loc = map_chunks(out, O)
    if loc is None:
        st['unmapped'] = len(space)
        return v, st, rules_seen
    idx = {}
    for i, c in enumerate(O):
        idx.setdefault((c.line, c.col, c.type), []).append(i)
    # independent input gap: align the non-blank bytes of input and output (equal when only spacing changed)
    import bisect
    nw_in = [k for k, ch in enumerate(x) if ch not in b' \t\r\n\x0c\x0b']
    nw_out = [k for k, ch in enumerate(out) if ch not in b' \t\r\n\x0c\x0b']
    aligned = len(nw_in) == len(nw_out) and bytes(x[k] for k in nw_in) == bytes(out[k] for k in nw_out)
    st['files_aligned'] = 1 if aligned else 0
    # adjacency in the input: position of each T-stage chunk -> (position, text) of the next T-stage chunk with text
    T = [c for c in dump['T'] if c.text != '' and c.type != 'NEWLINE']
    tnext = {}
    for k in range(len(T) - 1):
        tnext[(T[k].line, T[k].col)] = (T[k + 1].line, T[k + 1].col, T[k + 1].text)
    cursor = 0
    for r in space:
        if r.file != 1:
            continue
        st['records'] += 1
        if not r.rules:
            st['unattributed'] += 1
            continue
        R = rule_name(r.rules[-1])
        if R not in sp_names:
            st['unattributed'] += 1
            continue
        a = idx.get((r.l1, r.c1, r.t1))
        b = idx.get((r.l2, r.c2, r.t2))
        if not a or not b:
            st['unmapped'] += 1
            continue
        # records are written in chunk-list order: several chunks with one original position (split tokens) are told apart by order
        i = next((q for q in a if q >= cursor and O[q].text == r.text1), None)
        j = next((q for q in b if i is not None and q > i and O[q].text == r.text2), None)
        if i is None or j is None:
            st['unmapped'] += 1
            continue
        cursor = i
        if any(O[k].text != '' or O[k].type == 'NEWLINE' for k in range(i + 1, j)):
            st['not_adjacent'] += 1
            continue
        la, lb = loc[i], loc[j]
        if la is None or lb is None:
            st['not_adjacent'] += 1
            continue
        between = out[la[1]:lb[0]]
        if between.strip(b' \t') != b'':
            st['not_adjacent'] += 1            # not on one output line (or a continuation in between)
            continue
        if r.in_qt:
            st['qt'] += 1
            continue
        gap = len(between)
        if b'\t' in between:
            gap = max(gap, 1)
        val = assign.get(R, sp_names[R])
        deco = r.rules[-1][len(R):]
        if '/FORCE' in deco:
            val = 'force'                     # the log itself says the value is overridden ("sp_after_ellipsis/FORCE")
        elif '| ADD' in deco:
            val = {'ignore': 'add', 'remove': 'force'}.get(val, val)      # "sp_type_func | ADD"
        ca, cb = O[i], O[j]
        if cb.type.startswith('COMMENT'):
            st['comment_second'] += 1
            nxt = O[j + 1] if j + 1 < len(O) else None
            if nxt is None or nxt.type == 'NEWLINE':
                continue          # a trailing comment may keep its column (space_text's comment adjustment, alignment)
        ingap = None
        if aligned:
            # the bytes that stood between the same two characters in the input
            k = bisect.bisect_left(nw_out, la[1] - 1)
            if k + 1 < len(nw_out) and nw_out[k] == la[1] - 1 and nw_out[k + 1] == lb[0]:
                between_in = x[nw_in[k] + 1:nw_in[k + 1]]
                if b'\n' not in between_in and b'\r' not in between_in:
                    ingap = len(between_in)
        elif not (ca.inserted or cb.inserted) and ca.line == cb.line and ca.col_end > 0 and '\n' not in ca.text \
                and tnext.get((ca.line, ca.col)) == (cb.line, cb.col, cb.text):
            ingap = cb.col - ca.col_end          # the two tokens were neighbours on one input line (T dump)
        st['judged'] += 1
        rules_seen[R] = rules_seen.get(R, 0) + 1
        ta, tb = ca.text, cb.text
        hazard = bool(ta and tb and is_id(ta[-1]) and is_id(tb[0])) or relex_differs(ta, tb, lang)
        named_remove = False
        if R in NAMED:
            # the statement's exception: under Remove a blank is kept between return/case and an operand, a macro name and its body.
            # Everything else about these rules is judged: the other three values, and that the raw decision is the configured one.
            if val == 'remove':
                named_remove = True
            if R == 'sp_case_label' and val == 'ignore':
                val = 'add'                  # 'case' and a word/number cannot be written without a blank: ignore and add coincide
        if r.forced and not hazard:
            st['forced_without_hazard'] += 1
        bad = None
        if named_remove:
            if gap < 1:
                bad = 'named-remove-but-gap0'
            elif AV.get(r.av_raw) not in ('force', 'add'):
                bad = 'value-of-another-option'
        elif val == 'remove':
            if gap != 0:
                if hazard:
                    st['exempt_fusion'] += 1
                else:
                    bad = 'remove-but-gap'
        elif val == 'force':
            want = max(1, r.min_sp)
            if want > 1:
                st['force_min_gt1'] += 1
            if gap != want:
                bad = 'force-but-gap%s' % ('0' if gap == 0 else 'N')
        elif val == 'add':
            if gap < 1:
                bad = 'add-but-gap0'
        elif val == 'ignore':
            if ingap is not None and (gap > 0) != (ingap > 0):
                if gap > 0 and hazard and r.forced:
                    # uncrustify itself flagged the pair as a re-tokenisation hazard (e.g. '>' '>' closing templates in C++ without
                    # sp_permit_cpp11_shift) and the independent lexer agrees that the joined text is another token
                    st['exempt_fusion'] += 1
                else:
                    bad = 'ignore-but-%s' % ('added' if gap > 0 else 'removed')
        # the value applied must be the value configured for the very option named
        if bad is None and not named_remove and AV.get(r.av_raw) != val and not hazard and R not in exempt.get('non_plain_rules', {}):
            bad = 'value-of-another-option'
        if bad:
            ex = exempt.get('rules', {}).get(R)
            if ex and (ex.get('kinds') is None or bad in ex['kinds']):
                st['exempt_rule'] += 1
                continue
            if '\t' in ta and ca.type.startswith(('STRING', 'CHAR')):
                R = 'after-literal-with-tab'
            R = '%s|%s %s' % (R, tokoracle.gen(ta), tokoracle.gen(tb))
            v.append((bad, R, 'rule %s configured %s (raw %s, final %s, forced %d, min_sp %d): %r %r written with gap %d (input gap %s) at input line %d col %d' % (
                R, val, AV.get(r.av_raw), AV.get(r.av), r.forced, r.min_sp, ta[:20], tb[:20], gap, ingap, r.l1, r.c1)))
    return v, st, rules_seen


# small inputs dense in token pairs the corpus rarely has (deep generic closers, operators, casts, lambdas)
EXTRA_HOSTS = {
    'JAVA': b"""import java.util.*;
class G<T extends Comparable<T>> {
   Map<String, List<Set<Integer>>> m = new HashMap<String, List<Set<Integer>>>();
   List<Map<String,List<Set<T>>>> deep=new ArrayList<Map<String,List<Set<T>>>>();
   <U> U id(U u) { return u; }
   int sh(int a) { return a >>> 2 >> 1 << 3; }
   void f(int... xs) { for (int x : xs) { assert x > 0 : "neg"; } Runnable r = () -> { }; }
   @SuppressWarnings("x") int[][] arr = new int[2][3];
}
""",
    'CPP': b"""#include <vector>
template<typename T, typename U = std::vector<std::vector<std::vector<T>>>> struct D { U u; };
std::vector<std::vector<std::vector<int>>> v3;
auto lam = [=](int a, int&b) mutable noexcept -> int { return a+b; };
int (*fp)(int, char*) = nullptr;
class C : public B, private A { public: C() : B(), a_(1) {} ~C(); C& operator=(const C &o); int operator()(int x) const; private: int a_; };
void g() { int *p = new int[3]; delete[] p; auto q = static_cast<long>(*p) + sizeof(int) + (int)1.5; throw 1; }
namespace n1 { namespace n2 { using T = int; } }
enum class E : int { A = 1, B };
""",
    'CS': b"""using System;
class G<T> where T : IComparable<T> {
   Dictionary<string, List<HashSet<int>>> m = new Dictionary<string, List<HashSet<int>>>();
   int? n = null; int P { get; set; } = 3;
   void F(ref int a, out int b, params int[] xs) { b = a ?? 0; var l = xs?.Length; Func<int,int> f = x => x*2; }
}
""",
    'D': b"""module m;
template Foo(T) { alias Bar!(Baz!(Qux!(int))) X; }
void f(int[] a ...) { auto x = a[1 .. $]; assert(a !is null); foreach (i, e; a) { } int y = a.length >>> 1; }
""",
    'C': b"""#define M(a,b) ((a)+(b))
#define S #x
struct s { int a:3; unsigned b; } v = { .a = 1, .b = 2 };
int f(int a, char *p, ...) { int *q = &a; a = *q * *q + -a - --a + a++ + (a ? 1 : 2); p[0] = (char)a; goto end; end: return sizeof a + sizeof(int); }
typedef int (*fn)(void);
static const int arr[] = { [0] = 1, 2, };
""",
}


def load_input(spec):
    if spec[0] == 'corpus':
        return corpus.read(spec[1])
    if spec[0] == 'host':
        return HOSTS[spec[1]]
    if spec[0] == 'xhost':
        return QT_HOST if spec[1] == 'QT' else EXTRA_HOSTS[spec[1]]
    return spec[1]


QT_HOST = b"""#include <QObject>
class QtHost : public QObject { Q_OBJECT public: void wire( QObject * a , QObject * b ); };
void QtHost::wire( QObject * a , QObject * b )
{
   connect( a , SIGNAL( valueChanged( int * , const QString & ) ) , b , SLOT( setValue( int * , const QString & ) ) );
   connect(a,SIGNAL(done(int*,QList<int>&)),b,SLOT(finish(int*,QList<int>&)));
}
void after( char * , int & , const char * const * , QList<int> & );
void after2(char*,int&,const char*const*,QList<int>&);
int ( * fp2 )( int , char * , long & ) = nullptr;
static int use( int ( a ) , int b ) { return after3( ( a ) , b ) ; }
""" + EXTRA_HOSTS['CPP']


EMBEDDED_COMMENTS = b"""
int cm(int *p, int a, int b)
{
   int x = /* out */ *p;
   int y = a /* c */ * b;
   int z = a /* d */ / b;
   int w = a /* e */ + b /* f */ - 1;
   int *q = /* addr */ &a;
   cm(/* first */ p, /* second */ a /* third */, b);
   x = /* cast */ (int) y /* s */ ;
   x = -/* neg */ y + ~/* inv */ z;
   w = a /* lt */ < b /* and */ && z /* ne */ != 0;
   return /* r */ x /* t */ ;
}
"""
EXTRA_HOSTS['C'] = EXTRA_HOSTS['C'] + EMBEDDED_COMMENTS
EXTRA_HOSTS['CPP'] = EXTRA_HOSTS['CPP'] + EMBEDDED_COMMENTS


def _case(t):
    cid, spec, lang, assign = t
    x = load_input(spec)
    if b'\x00' in x or x[:2] in (b'\xff\xfe', b'\xfe\xff') or x[:3] == b'\xef\xbb\xbf' or b'\r' in x:
        return dict(cid=cid, status='skipped')
    b = build.binary('plain')
    sp_names = {o.name: o.default for o in registry.options(b) if o.type == 'iarf' and o.name.startswith('sp_')}
    exempt = load_exemptions()
    a = dict(BASE)
    a.update(assign)
    f = fmt.fmt(x, lang, cfggen.text(a), dump=True, space=True)
    if f.out is None:
        return dict(cid=cid, status='hard' if (f.res.signal or f.res.cpu_timeout) else 'rejected')
    if not f.dump or not f.space:
        return dict(cid=cid, status='nohook')
    v, st, rules_seen = judge(x, f.out, f.dump, f.space, a, sp_names, exempt, lang)
    seen = set()
    out = []
    for bad, R, detail in v:
        if (bad, R) in seen:
            continue
        seen.add((bad, R))
        out.append((bad, R, detail))
    return dict(cid=cid, status='ok', viols=out, stats=st, rules=rules_seen, nontrivial=f.out != x, input=x if out else None,
                cfg=cfggen.text(a) if out else None, lang=lang, n_viol=len(v))


def code_words(names, r):
    """Pairwise-separating family: every option gets a distinct word of length 6 over the four values with minimum distance 2
    (5 free symbols + a parity symbol); config i gives each option the i-th symbol of its word."""
    words = []
    for k in range(4 ** 5):
        d = [(k // 4 ** p) % 4 for p in range(5)]
        d.append(sum(d) % 4)
        words.append(d)
    r.shuffle(words)
    names = sorted(names)
    assert len(names) <= len(words)
    perm = list(range(6))
    r.shuffle(perm)
    return [{n: VALS[words[i][perm[c]]] for i, n in enumerate(names)} for c in range(6)]


def rule_index(files):
    """Which rules fire in which corpus file under the default configuration (one run per file)."""
    res = pmap(_index_one, files)
    by_rule = {}
    for (rel, lang), names in zip(files, res):
        for n in names:
            by_rule.setdefault(n, []).append((rel, lang))
    return by_rule


def _index_one(t):
    rel, lang = t
    x = corpus.read(rel)
    if b'\x00' in x or x[:2] in (b'\xff\xfe', b'\xfe\xff') or x[:3] == b'\xef\xbb\xbf' or b'\r' in x:
        return []
    f = fmt.fmt(x, lang, cfggen.text(BASE), space=True)
    if f.out is None or not f.space:
        return []
    return sorted({rule_name(r.rules[-1]) for r in f.space if r.rules})


def check(ctx):
    b = build.binary('plain')
    quick = ctx.tier == 'quick'
    sr = rng(PROP, 'select')
    opts = registry.options(b)
    sp = sorted(o.name for o in opts if o.type == 'iarf' and o.name.startswith('sp_'))
    ctx.extra['sp_iarf_options'] = len(sp)
    files = [(rel, lang) for rel, lang in corpus.files()]
    by_rule = rule_index(files)
    ctx.extra['rules_firing_under_default'] = len([n for n in by_rule if n in set(sp)])
    tasks = []
    hosts = [('host', l) for l in sorted(HOSTS)]
    # exhaustive over options x values: every sp_ option singly at each of its four values, on files where its rule fires
    per_opt = 5 if quick else 12
    for n in sp:
        fl = by_rule.get(n, [])
        fr = fixed_rng(PROP, 'files:' + n)
        chosen = fr.sample(fl, min(len(fl), per_opt)) if fl else []
        extra = sr.sample(files, 2 if quick else 4)
        for val in VALS:
            for rel, lang in chosen + extra:
                tasks.append(('single:%s=%s:%s' % (n, val, rel), ('corpus', rel), lang, {n: val}))
        for val in VALS:
            for l in sorted(EXTRA_HOSTS):
                tasks.append(('single:%s=%s:xhost-%s' % (n, val, l), ('xhost', l), l, {n: val}))
        if True:
            for val in VALS:
                for h in (hosts if not quick else fr.sample(hosts, 3)):
                    tasks.append(('single:%s=%s:host-%s' % (n, val, h[1]), h, h[1], {n: val}))
    # the Qt SIGNAL/SLOT override left at its default (on): pairs inside the macros are skipped (flag exported by the hook), everything
    # after a macro obeys the configured values again
    QT = {'use_options_overriding_for_qt_macros': 'true'}
    qt_files = [(rel, lang) for rel, lang in files if lang == 'CPP' and re.search(rb'\b(SIGNAL|SLOT)\s*\(', corpus.read(rel))]
    ctx.count('qt_corpus_files', len(qt_files))
    for n in sp:
        for val in VALS:
            tasks.append(('qt-single:%s=%s:xhost-QT' % (n, val), ('xhost', 'QT'), 'CPP', dict(QT, **{n: val})))
    for ci, a in enumerate(code_words(sp, rng(PROP, 'words'))):
        tasks.append(('qt-code:%d:xhost-QT' % ci, ('xhost', 'QT'), 'CPP', dict(a, **QT)))
        for rel, lang in qt_files:
            tasks.append(('qt-code:%d:%s' % (ci, rel), ('corpus', rel), lang, dict(a, **QT)))
    for k in range(40 if quick else 400):
        jr = fixed_rng(PROP, 'qtjoint%d' % k)
        a = {n: jr.choice(VALS) for n in sp}
        tasks.append(('qt-joint:%d:xhost-QT' % k, ('xhost', 'QT'), 'CPP', dict(a, **QT)))
    # pairwise-separating joint family (6 configs) and seeded joint draws, over seeded corpus files and the hosts
    fam = code_words(sp, rng(PROP, 'words'))
    nfiles = 150 if quick else 600
    for ci, a in enumerate(fam):
        for rel, lang in sr.sample(files, nfiles):
            tasks.append(('code:%d:%s' % (ci, rel), ('corpus', rel), lang, a))
        for h in hosts:
            tasks.append(('code:%d:host-%s' % (ci, h[1]), h, h[1], a))
        for l in sorted(EXTRA_HOSTS):
            tasks.append(('code:%d:xhost-%s' % (ci, l), ('xhost', l), l, a))
    for k in range(150 if quick else 1500):
        jr = rng(PROP, 'joint%d' % k)
        a = {n: jr.choice(VALS) for n in sp}
        for rel, lang in jr.sample(files, 6):
            tasks.append(('joint:%d:%s' % (k, rel), ('corpus', rel), lang, a))
        l = jr.choice(sorted(EXTRA_HOSTS))
        tasks.append(('joint:%d:xhost-%s' % (k, l), ('xhost', l), l, a))
    ctx.rule = ('case = input (corpus file of any language or hand-written host) formatted with the SPACE and DUMP hooks on; configs: every one of '
                'the %d IARF sp_ options singly at each of ignore/add/remove/force (exhaustive over options x values) on files where its rule '
                'fires, a 6-config pairwise-separating family (every two options differ in >= 2 configs) and seeded joint draws; alignment, tabs and '
                'the Qt override off.  Oracle: each SPACE record whose last logged rule is a user option and whose two tokens are adjacent on one '
                'output line (located in the output bytes by a sequential scan of the O dump) is judged: remove -> gap 0 unless the junction is two '
                'identifier characters or uncrustify flagged a re-tokenisation hazard; force -> exactly min_sp (1) blanks; add -> >= 1; ignore -> '
                'presence as in the input; and the raw decision equals the value configured for the rule named.  non-trivial = accepted case whose '
                'output differs from the input' % len(sp))
    seen = set()
    tot = {}
    rules = {}
    ok = []
    for r in pmap(_case, tasks):
        ctx.evaluations += 1
        ctx.count('cases_' + r['cid'].split(':')[0])
        ctx.count('status_' + r['status'])
        if r['status'] != 'ok':
            continue
        ok.append(r)
        for k, n in r['stats'].items():
            tot[k] = tot.get(k, 0) + n
        for k, n in r['rules'].items():
            rules[k] = rules.get(k, 0) + n
        if r['nontrivial']:
            ctx.nt(r['cid'])
        for bad, R, detail in r['viols']:
            key = '%s|%s' % (bad, R)
            if key in seen:
                continue
            seen.add(key)
            ctx.violation(key, '%s (case %s): %s' % (bad, r['cid'], detail), files={'input': r['input'], 'config.cfg': r['cfg']})
    for k, n in tot.items():
        ctx.count('pairs_' + k, n)
    ctx.count('distinct_rules_judged', len(rules))
    ctx.extra['rules_never_judged'] = sorted(set(sp) - set(rules))[:300]
    ctx.extra['pairs_per_rule_min10'] = {k: n for k, n in sorted(rules.items(), key=lambda kv: kv[1])[:10]}
    for r in ok[:3]:
        ctx.sample(dict(case=r['cid'], records=r['stats']['records'], judged=r['stats']['judged']))
    ctx.assumptions += ['pairs whose last logged rule is not a user option (REMOVE, ADD as default, ...) are not attributed and not judged (counted)',
                        'a trailing comment (comment followed by a line break) may keep its original column and is not judged',
                        'pairs inside Qt SIGNAL/SLOT macros are skipped (use_options_overriding_for_qt_macros is set false, the flag is exported by the hook)',
                        'force is judged against the min_sp the rule passes (1 unless a sp_num_* companion asks for more; those stay at their defaults)',
                        'rule-specific exemptions are listed with their justification in data/c19_exemptions.json']
    ctx.require('pairs_judged', 500000 if quick else 3000000)
    ctx.require('distinct_rules_judged', 200)
