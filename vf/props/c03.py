"""C03 - comments and literals survive intact."""
import os
import re

from .. import build, cfggen, corpus, fmt, inject, lex, minimise, registry, tokoracle
from ..common import pmap, rng, fixed_rng, sha

LEVEL = 'exploration'
PROP = 'C03'
NL = re.compile(r'\r\n|\r|\n')


def norm_comment(text):
    """Normal form allowed by the statement: re-indented continuation lines, trimmed trailing blanks, '*' leader spacing,
    a repeated '//' leader on the continuation lines of a backslash-continued line comment."""
    if text.startswith('/*') and not text.endswith('*/'):
        text = text.rstrip('\r\n')      # unterminated at end of file
    lines = NL.split(text)
    out = [lines[0].rstrip(' \t')]
    is_cpp = text.startswith('//')
    for l in lines[1:]:
        l = l.strip(' \t\f\v')
        if is_cpp and l.startswith('//'):
            l = l[2:].lstrip(' \t')
        elif not is_cpp and l.startswith('*') and not l.startswith('*/'):
            l = '*' + l[1:].lstrip(' \t')
        out.append(l)
    return '\n'.join(out)


def norm_literal(text):
    return NL.sub('\n', text)


def lists_from_lexer(data, lang):
    toks = lex.lex(data, lang)
    return toks, [norm_comment(t.text) for t in toks if t.kind == 'comment'], [norm_literal(t.text) for t in toks if t.kind in ('str', 'chr', 'hdr')]


LIT_TYPES = ('STRING', 'STRING_MULTI', 'CHAR')


def lists_from_dump(T):
    cm = [norm_comment(c.text) for c in T if c.type.startswith('COMMENT')]
    li = [norm_literal(c.text) for c in T if c.type in LIT_TYPES]
    return cm, li


def diff_lists(a, b):
    i = next((k for k, (p, q) in enumerate(zip(a, b)) if p != q), min(len(a), len(b)))
    return i, (a[i] if i < len(a) else None), (b[i] if i < len(b) else None)


def judge(x, lang, assign):
    K = cfggen.text(assign)
    a = fmt.fmt(x, lang, K, dump=True)
    if a.out is None:
        return ('rejected' if not (a.res.signal or a.res.cpu_timeout) else 'hard', [], False, 0, 0)
    if not a.dump or not a.dump['T']:
        return ('nodump', [], False, 0, 0)
    b = fmt.fmt(a.out, lang, '', dump=True)
    if not b.dump or (not b.dump['T'] and a.dump['T']):
        return ('nodump', [], False, 0, 0)
    tx, cx, lx = lists_from_lexer(x, lang)
    to, co, lo = lists_from_lexer(a.out, lang)
    dcx, dlx = lists_from_dump(a.dump['T'])
    dco, dlo = lists_from_dump(b.dump['T'])
    precise = lang in lex.PRECISE and tokoracle.well_lexed(tx) and not (lang == 'CS' and re.search(rb'\$@?"|@\$"', x))
    v = []
    for what, la, lb, da, db in (('comment', cx, co, dcx, dco), ('literal', lx, lo, dlx, dlo)):
        lex_diff = la != lb
        own_diff = da != db
        if (lex_diff and (precise or own_diff)) or (own_diff and precise and lex_diff):
            src_a, src_b = (la, lb) if lex_diff else (da, db)
            i, p, q = diff_lists(src_a, src_b)
            if p is None:
                kind = what + '-added'
            elif q is None:
                kind = what + '-lost'
            elif len(src_a) != len(src_b):
                kind = what + '-count'
            else:
                kind = what + '-altered'
            v.append((kind, classify(what, p, q), '%s #%d: %r -> %r (%d -> %d %ss)' % (what, i, p, q, len(src_a), len(src_b), what)))
    return ('ok', v, a.out != x, len(cx), len(lx))


def classify(what, p, q):
    """Root-cause class of a changed comment/literal."""
    s = p if p is not None else q
    cls = []
    if what == 'comment':
        cls.append('cpp' if s.startswith('//') else 'block')
        if '\\\n' in s:
            cls.append('backslash-continued')
        elif '\n' in s:
            cls.append('multi-line')
        if '\t' in s:
            cls.append('tab')
    else:
        cls.append('raw' if re.match(r'(u8|u|U|L)?R"', s) else 'char' if s[:1] in "'L" and "'" in s[:3] else 'hdr' if s.startswith('<') else 'string')
        if '\n' in s:
            cls.append('multi-line')
        if '\t' in s:
            cls.append('tab')
    if p is not None and q is not None and q == '/' + p:
        cls.append('slash-glued')
    if what == 'comment' and '\\\\\n' in s:
        cls.append('double-backslash')
    if p is not None and q is not None:
        if p.replace(' ', '').replace('\t', '') == q.replace(' ', '').replace('\t', ''):
            cls.append('blanks-only')
    return '+'.join(cls)


def _case(t):
    cid, src, lang, assign = t
    kind = src[0]
    if kind == 'corpus':
        x = corpus.read(src[1])
    elif kind == 'inject':
        base = corpus.read(src[1])
        r = fixed_rng(PROP, 'inj:%s:%d' % (src[1], src[2]))
        if not tokoracle.well_lexed(lex.lex(base, lang)) or b'INDENT-O' in base or b'asm' in base:
            return (cid, 'skipped-base', [], False, 0, 0, None)
        x = inject.inject_comments(base, lang, r)
        if x is not None and r.random() < 0.5:
            x = inject.replace_literals(x, lang, r) or x
        if x is None:
            return (cid, 'skipped-base', [], False, 0, 0, None)
    else:
        x = src[1]
    status, v, changed, nc, nl = judge(x, lang, assign)
    out = []
    for k, cls, detail in v:
        small = assign
        if len(assign) >= 1:
            def pred(sub, k=k):
                st, vv, _, _, _ = judge(x, lang, sub)
                return any(kk == k for kk, _, _ in vv)
            small = minimise.minimise_cfg(assign, pred, max_runs=40)
        out.append((k, cls, detail, small))
    return (cid, status, out, changed, nc, nl, x if out else None)


def check(ctx):
    b = build.binary('plain')
    quick = ctx.tier == 'quick'
    full = bool(os.environ.get('VERIF_FULL'))
    sr = rng(PROP, 'select')
    opts = registry.options(b)
    files = corpus.files()
    curated = {n: cfggen.curated(opts, n) for n in cfggen.CURATED_WS}
    tasks = []
    for rel, lang in files:
        names = ['default'] + sr.sample([n for n in curated if n != 'default'], 3) if quick else sorted(curated)
        for n in names:
            tasks.append(('corpus:%s:%s' % (rel, n), ('corpus', rel), lang, curated[n]))
    # injected comments/literals: fixed universe (6 injections per C-family corpus file), config fixed per member
    inj_files = [(rel, lang) for rel, lang in files if lang in ('C', 'CPP', 'OC', 'OC+', 'JAVA', 'CS', 'D', 'VALA')]
    universe = [(rel, lang, k) for rel, lang in inj_files for k in range(6)]
    ctx.extra['injection_universe'] = len(universe)
    for rel, lang, k in (universe if (full or not quick) else sr.sample(universe, 3000)):
        fr = fixed_rng(PROP, 'injcfg:%s:%d' % (rel, k))
        n = fr.choice(sorted(curated))
        assign = curated[n] if fr.random() < 0.6 else cfggen.joint(opts, fr)
        tasks.append(('inject:%s:%d' % (rel, k), ('inject', rel, k), lang, assign))
    JOINT_U = 20000
    ctx.extra['joint_universe'] = JOINT_U
    for i in (range(JOINT_U) if full else sr.sample(range(JOINT_U), 1000 if quick else 6000)):
        fr = fixed_rng(PROP, 'joint%d' % i)
        rel, lang = files[fr.randrange(len(files))]
        tasks.append(('joint:%d:%s' % (i, rel), ('corpus', rel), lang, cfggen.joint(opts, fr)))
    ctx.rule = ('corpus x curated whitespace configs; fixed universe of comment/literal injections at random token boundaries (13 block, 8 line, 2 '
                'backslash-continued comment shapes; tabs, non-ASCII, raw and multi-line strings) x config; fixed universe of joint whitespace draws; '
                'oracle: list of comments in normal form and list of literals (raw bytes) equal between input and output, by the independent lexer '
                'and by the T dumps; non-trivial = distinct accepted case whose bytes changed and that carries at least one comment or literal')
    seen = set()
    for cid, status, viols, changed, nc, nl, x in pmap(_case, tasks):
        ctx.evaluations += 2 if status == 'ok' else 1
        ctx.count('cases_' + cid.split(':')[0])
        ctx.count('status_' + status)
        ctx.count('comments_compared', nc)
        ctx.count('literals_compared', nl)
        if status == 'ok' and changed and (nc or nl):
            ctx.nt(cid)
        for kind, cls, detail, small in viols:
            optkey = ','.join(sorted(small)) if len(small) <= 3 else '%d-options' % len(small)
            if not small:
                optkey = 'default:' + (cid.split(':')[2] if cid.startswith('joint') else ':'.join(cid.split(':')[1:3]))
            key = ('%s|%s|%s' % (kind, cls, optkey)).replace('\n', ' ')
            if key not in seen:
                seen.add(key)
                ctx.violation(key, '%s (case %s): %s\n  minimal options: %s' % (kind, cid, detail[:600], small), files={'input': x, 'config.cfg': cfggen.text(small)})
    ctx.sample(dict(case=tasks[0][0]))
    ctx.sample(dict(case=[t for t in tasks if t[0].startswith('inject')][0][0], injected_shapes=inject.BLOCK_COMMENTS[7:10] + inject.CONT_COMMENTS[:1] + inject.RAW_STRINGS[1:2]))
    ctx.assumptions += ['comment normal form: first line right-trimmed; continuation lines stripped of leading/trailing blanks, blanks after a "*" leader, and a repeated "//" leader',
                        'line terminators inside literals are unified before comparing (C08 judges terminators)',
                        'for generic languages and not well-lexed inputs a difference is reported only when lexer and dumps agree']
    ctx.require('comments_compared', 20000)
    ctx.require('literals_compared', 5000)
