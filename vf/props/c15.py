"""C15 - configuration round-trips: a saved config reloads to the same settings."""
import os
import re

from .. import build, cfgio, corpus, fmt, registry
from ..common import REPO, pmap, rng, fixed_rng, sha

LEVEL = 'exploration'
PROP = 'C15'

STRING_VALUES = ['', 'abc', 'a b', ' lead', 'trail ', 'a#b', 'a=b', 'a,b', "it's", 'say "hi"', 'back\\slash', 'end\\', '\\\\', '`tick`',
                 '[a-z]+\\.(h|c)$', '^\\s*//', 'ä€', '$(x)', '"', "'", '#', 'a\tb', '*INDENT*', '{}()']


def quote(s):
    return '"' + s.replace('\\', '\\\\').replace('"', '\\"') + '"'


def canonical(o, v):
    if o.type in ('unsigned', 'signed'):
        return str(int(v))
    return v.lower()


def _value_case(t):
    """One `option = value` config: load -> dump -> reload -> dump; with-doc agreement; value fidelity."""
    name, otype, value, is_string = t
    line = '%s = %s\n' % (name, quote(value) if is_string else value)
    r1, s1 = cfgio.update_config(line)
    runs = 1
    if s1 is None:
        if r1.status not in (None, 0) and r1.stderr.strip() and not r1.san_report:
            return (name, value, runs, [], False)       # refused with a diagnostic: not a configuration
        return (name, value, runs, [('dump-failed', 'loading %r: %s %s' % (line, r1.how(), r1.stderr[-200:].decode(errors='replace')))], False)
    probs = []
    v1, d1 = cfgio.parse(s1)
    want = quote(value) if is_string else None
    got = v1.get(name)
    if is_string:
        # the value the file gave must be the value the dump shows (the writer escapes '"' and '\\')
        raw = got or ''
        unq = raw[1:-1] if raw.startswith('"') and raw.endswith('"') and len(raw) >= 2 else raw
        unq = re.sub(r'\\(.)', r'\1', unq)
        if unq != value:
            probs.append(('string-not-loaded', '%s = %s is dumped as %s: the value given in the file is not the value loaded%s' % (
                name, quote(value), raw, ('; stderr: ' + r1.stderr[:160].decode(errors='replace')) if r1.stderr.strip() else '')))
    else:
        exp = str(int(value)) if otype in ('unsigned', 'signed') else value.lower()
        if got != exp:
            probs.append(('value-not-dumped', '%s = %s is dumped as %r' % (name, value, got)))
    r2, s2 = cfgio.update_config(s1)
    runs += 1
    if s2 is None:
        probs.append(('reload-failed', 'the dump of %r cannot be loaded: %s' % (line, r2.stderr[-300:].decode(errors='replace'))))
        return (name, value, runs, probs, True)
    if r2.stderr.strip():
        probs.append(('reload-warns', 'loading the dump of %r prints: %s' % (line, r2.stderr[:300].decode(errors='replace'))))
    if cfgio.body(s2) != cfgio.body(s1):
        v2, d2 = cfgio.parse(s2)
        diff = sorted(k for k in set(v1) | set(v2) if v1.get(k) != v2.get(k))
        probs.append(('not-idempotent', 'dump(dump(%r)) differs from dump: options %s, directives %s -> %s' % (line, diff[:5], d1[:3], d2[:3])))
    if is_string:
        # behaviour-level fidelity: the reloaded string must equal the string first given.  Observe it through a third spelling:
        # dump of the reloaded config must carry the same raw text as the dump of the original (idempotence above) AND
        # the original value must be recoverable: load `name = quote(value)` and `dump` agree on the unescaped content.
        raw = v1.get(name, '')
        unq = raw[1:-1] if raw.startswith('"') and raw.endswith('"') and len(raw) >= 2 else raw
        v2, _ = cfgio.parse(s2)
        raw2 = v2.get(name, '')
        if raw2 != raw:
            probs.append(('string-changes-on-reload', '%s: %r is dumped as %s and reloads as %s' % (name, value, raw, raw2)))
    rd, sd = cfgio.update_config(line, with_doc=True)
    runs += 1
    if sd is None:
        probs.append(('with-doc-failed', '--update-config-with-doc fails for %r' % line))
    else:
        vd, dd = cfgio.parse(sd)
        diff = sorted(k for k in set(v1) | set(vd) if v1.get(k) != vd.get(k))
        if diff or dd != d1:
            probs.append(('with-doc-disagrees', '--update-config-with-doc disagrees with --update-config for %r on %s' % (line, diff[:5])))
    return (name, value, runs, probs, True)


def _spelling_case(t):
    name, value, is_string, idx = t
    v = quote(value) if is_string else value
    base = '%s = %s\n' % (name, v)
    r0, s0 = cfgio.update_config(base)
    if s0 is None:
        return (name, 0, [])
    probs = []
    runs = 1
    variants = {
        'no-spaces': '%s=%s\n' % (name, v), 'space-only': '%s %s\n' % (name, v), 'comment': '%s = %s  # a comment\n' % (name, v),
        'upper-name': '%s = %s\n' % (name.upper(), v), 'tab': '%s\t%s\n' % (name, v), 'comma': '%s,%s\n' % (name, v),
        'leading-blanks': '   %s   =   %s   \n' % (name, v), 'crlf': '%s = %s\r\n' % (name, v), 'mixed-case': '%s = %s\n' % (name.title(), v),
    }
    if not is_string:
        variants['upper-value'] = '%s = %s\n' % (name, v.upper())
        variants['quoted-value'] = '%s = "%s"\n' % (name, v)
    for tag, txt in variants.items():
        r, s = cfgio.update_config(txt)
        runs += 1
        if s is None or cfgio.body(s) != cfgio.body(s0):
            probs.append(('spelling|' + tag, 'spelling %r loads differently from %r' % (txt, base)))
    # --set on the command line
    r, s = cfgio.update_config('', extra=['--set', '%s=%s' % (name, value if is_string else v)])
    runs += 1
    if s is None or cfgio.body(s) != cfgio.body(s0):
        probs.append(('spelling|--set', '--set %s=%s loads differently from the config line %r' % (name, value, base)))
    return (name, runs, probs)


def reference_cases(opts):
    by = {}
    for o in opts:
        by.setdefault(o.type, []).append(o)
    cases = []
    nums = by['unsigned'] + by['signed']
    r = fixed_rng(PROP, 'refs')
    for o in nums:
        val = next(v for v in (3, 1, 2, 0) if (o.min is None or o.min <= v) and (o.max is None or o.max >= v))
        src = r.choice([p for p in by['unsigned'] if p.name != o.name and (p.min is None or p.min <= val) and (p.max is None or p.max >= val)])
        cases.append(('%s = %d\n%s = %s\n' % (src.name, val, o.name, src.name), '%s = %d\n%s = %d\n' % (src.name, val, o.name, val)))
        if o.type == 'signed' and (o.min is None or o.min <= -val):
            cases.append(('%s = %d\n%s = -%s\n' % (src.name, val, o.name, src.name), '%s = %d\n%s = %d\n' % (src.name, val, o.name, -val)))
    for o in by['bool']:
        src = r.choice([p for p in by['bool'] if p.name != o.name])
        for v in ('true', 'false'):
            inv = 'false' if v == 'true' else 'true'
            cases.append(('%s = %s\n%s = %s\n' % (src.name, v, o.name, src.name), '%s = %s\n%s = %s\n' % (src.name, v, o.name, v)))
            for pre in '~!-':
                cases.append(('%s = %s\n%s = %s%s\n' % (src.name, v, o.name, pre, src.name), '%s = %s\n%s = %s\n' % (src.name, v, o.name, inv)))
    for o in by['iarf']:
        src = r.choice([p for p in by['iarf'] if p.name != o.name])
        v = r.choice(['add', 'remove', 'force', 'ignore'])
        cases.append(('%s = %s\n%s = %s\n' % (src.name, v, o.name, src.name), '%s = %s\n%s = %s\n' % (src.name, v, o.name, v)))
    for o in by['tokenpos']:
        src = r.choice([p for p in by['tokenpos'] if p.name != o.name])
        v = r.choice(o.values)
        cases.append(('%s = %s\n%s = %s\n' % (src.name, v, o.name, src.name), '%s = %s\n%s = %s\n' % (src.name, v, o.name, v)))
    return cases


def _ref_case(t):
    a, b = t
    ra, sa = cfgio.update_config(a)
    rb, sb = cfgio.update_config(b)
    if sa is None or sb is None:
        return (a, 2, [('reference-failed', 'config %r or %r fails to load' % (a, b))])
    if cfgio.body(sa) != cfgio.body(sb):
        va, _ = cfgio.parse(sa)
        vb, _ = cfgio.parse(sb)
        diff = sorted(k for k in set(va) | set(vb) if va.get(k) != vb.get(k))
        return (a, 2, [('reference-differs', 'config %r loads differently from %r: %s' % (a, b, [(k, va.get(k), vb.get(k)) for k in diff[:3]]))])
    return (a, 2, [])


DIRECTIVES = [
    ('type', 'type myint_t\n', b'void f() { myint_t * a; myint_t b; }\n', 'C'),
    ('type', 'type T1 T2 T3 T4 T5\n', b'void f() { T1 * a; T5 * b; x * y; }\n', 'C'),
    ('type', 'type T1,T2\ntype T3\n', b'void f() { T1 * a; T3 * b; }\n', 'C'),
    ('type', 'type "quoted_t"\n', b'void f() { quoted_t * a; }\n', 'C'),
    ('set', 'set FOR my_foreach\n', b'void f() { my_foreach (a, b) x(); }\n', 'C'),
    ('set', 'set TYPE U32 U64 "U8"\n', b'void f() { U32 * a; U8 * b; }\n', 'C'),
    ('set', 'set MACRO_FUNC DECLARE_THING\nset PP_IF my_if\n', b'DECLARE_THING(a)\nint b;\n', 'C'),
    ('macro', 'macro-open BEGIN_X\nmacro-close END_X\nmacro-else ELSE_X\n', b'void f() {\nBEGIN_X(1)\na();\nELSE_X()\nb();\nEND_X()\n}\n', 'C'),
    ('file_ext', 'file_ext CPP .xyz .foo\n', b'class A { public: int a; };\n', None),
    ('file_ext', 'file_ext C .cx\nfile_ext JAVA .jv .jav\nfile_ext D .dd\n', b'int a;\n', None),
    ('file_ext', 'file_ext cpp .tpp\n', b'template<class T> class A { A<A<T>> x; public: int a; };\n', None),
    ('file_ext', 'file_ext Java .jav\nfile_ext cs .csy\nfile_ext oc+ .mmx\n', b'class A { int a; }\n', None),
    ('file_ext', 'file_ext Cpp .hh2 .h++x\nfile_ext vala .vv\nfile_ext pawn .pp9\nfile_ext ecma .jss\n', b'class A { public: int a; };\n', None),
    ('all', 'type A_t\nset WHILE until\nmacro-open MO\nmacro-close MC\nfile_ext CS .csx\nindent_columns = 3\n', b'void f() { A_t * a; until (x) y(); }\n', 'C'),
]


def _directive_case(t):
    kind, cfg, src, lang, idx = t
    r1, s1 = cfgio.update_config(cfg)
    if s1 is None:
        return (kind, 1, [('directive-dump-failed', '%r: %s' % (cfg, r1.stderr[-200:]))], False)
    probs = []
    v1, d1 = cfgio.parse(s1)
    # everything a directive of the original config names (types, keywords, extensions) must be named by a directive of the dump
    joined = ' ' + ' '.join(d1).replace(',', ' ') + ' '
    for line in cfg.split('\n'):
        w = line.replace(',', ' ').replace('"', ' ').split()
        if not w or w[0] not in ('type', 'set', 'macro-open', 'macro-close', 'macro-else', 'file_ext'):
            continue
        args = w[1:] if w[0] not in ('set', 'file_ext') else w[2:]
        for a_ in args:
            if (' ' + a_ + ' ') not in joined.replace('"', ' '):
                probs.append(('directive-dropped|' + kind, 'config %r: %r of the %s directive is not in the dump %s' % (cfg, a_, w[0], sorted(d1))))
    r2, s2 = cfgio.update_config(s1)
    runs = 2
    if s2 is None:
        probs.append(('directive-reload-failed', 'dump of %r cannot be loaded (%s): %s' % (cfg, r2.how(), r2.stderr[-300:].decode(errors='replace'))))
    else:
        v2, d2 = cfgio.parse(s2)
        if sorted(d1) != sorted(d2) or r2.stderr.strip():
            probs.append(('directive-lost|' + kind, 'config %r: directives after dump %s, after reload %s%s' % (
                cfg, sorted(d1), sorted(d2), (' ; reload prints ' + r2.stderr[:200].decode(errors='replace')) if r2.stderr.strip() else '')))
        if cfgio.body(s2) != cfgio.body(s1):
            probs.append(('directive-not-idempotent|' + kind, 'dump(dump(%r)) differs from dump' % cfg))
        # behaviour: same formatting with the original and the dumped config
        name = None
        if kind == 'file_ext':
            m = re.search(r'file_ext \w+ (\.\w+)', cfg)
            name = 'in' + m.group(1)
        a = fmt.fmt(src, lang, cfg, name=name)
        b = fmt.fmt(src, lang, s1, name=name)
        runs += 2
        if a.out != b.out or a.status != b.status:
            probs.append(('directive-behaviour|' + kind, 'formatting %r with %r (exit %s) and with its dump (exit %s) differs' % (src, cfg, a.status, b.status)))
    rd, sd = cfgio.update_config(cfg, with_doc=True)
    runs += 1
    if sd is not None:
        vd, dd = cfgio.parse(sd)
        if sorted(dd) != sorted(d1):
            probs.append(('directive-with-doc|' + kind, 'with-doc dump has directives %s, plain dump %s' % (sorted(dd), sorted(d1))))
    return (kind, runs, probs, True)


def _behaviour_case(t):
    tid, cfgrel, inprel, lang = t
    cdir = os.path.join(REPO, 'tests', 'config')
    K = open(os.path.join(cdir, cfgrel), 'rb').read()
    if re.search(rb'^\s*include\b|cmt_insert|cmt_reflow_fold_regex_file', K, re.M):
        return (tid, 0, 'skipped-uses-files', [])
    r1, s1 = cfgio.update_config(K)
    if s1 is None:
        return (tid, 1, 'skipped-config-rejected', [])
    x = corpus.read(inprel)
    a = fmt.fmt(x, lang, K)
    b = fmt.fmt(x, lang, s1)
    probs = []
    if a.status != b.status or a.out != b.out:
        probs.append(('behaviour-differs', 'test %s: formatting tests/input/%s with tests/config/%s (exit %s) and with its --update-config dump (exit %s) differs' % (
            tid, inprel, cfgrel, a.status, b.status)))
    r2, s2 = cfgio.update_config(s1)
    if s2 is None or cfgio.body(s2) != cfgio.body(s1):
        probs.append(('config-not-idempotent', 'tests/config/%s: dump(dump) differs from dump' % cfgrel))
    return (tid, 4, 'ok' if (a.out is not None and a.out != x) else 'ok-trivial', probs)


def check(ctx):
    b = build.binary('plain')
    quick = ctx.tier == 'quick'
    sr = rng(PROP, 'select')
    opts = registry.options(b)
    ctx.extra['options_in_registry'] = len(opts)
    # (a) option x value-class sweep
    tasks = []
    for o in opts:
        if o.type == 'string':
            for v in STRING_VALUES:
                tasks.append((o.name, o.type, v, True))
        else:
            vals = registry.values_for(o)
            if o.type in ('unsigned', 'signed') and o.max is None:
                vals = vals + ['65535', '2147483647']
            if o.type == 'signed' and o.min is None:
                vals = vals + ['-2147483648']
            for v in vals:
                tasks.append((o.name, o.type, v, False))
    ctx.extra['sweep_cases'] = len(tasks)
    sel = tasks if not quick else [t for t in tasks if t[3]] + sr.sample([t for t in tasks if not t[3]], 1500)
    ctx.exhaustive = not quick
    seen_opts = set()
    for name, value, runs, probs, ok in pmap(_value_case, sel):
        ctx.evaluations += runs
        ctx.count('value_cases')
        seen_opts.add(name)
        if ok and not probs:
            ctx.nt('v', name, value)
        if not ok and not probs:
            ctx.count('value_cases_refused_at_load')
        for kind, desc in probs:
            cls = 'string' if name in [o.name for o in opts if o.type == 'string'] else 'value'
            ctx.violation('%s|%s%s' % (kind, cls, ('|' + classify_string(value)) if cls == 'string' else '|' + name), desc, files={'k.cfg': '%s = %s\n' % (name, value)})
    ctx.counters['options_exercised'] = len(seen_opts)
    # (b) spellings
    sp = []
    for i, o in enumerate(opts):
        if o.type == 'string':
            sp.append((o.name, 'abc', True, i))
        else:
            vals = [v for v in registry.values_for(o) if v != o.default] or registry.values_for(o)
            sp.append((o.name, vals[i % len(vals)], False, i))
    for name, runs, probs in pmap(_spelling_case, sp if not quick else sr.sample(sp, 200)):
        ctx.evaluations += runs
        ctx.count('spelling_cases')
        for kind, desc in probs:
            ctx.violation('%s|%s' % (kind, name), desc)
    # (c) references
    refs = reference_cases(opts)
    for a, runs, probs in pmap(_ref_case, refs if not quick else sr.sample(refs, 400)):
        ctx.evaluations += runs
        ctx.count('reference_cases')
        if not probs:
            ctx.nt('ref', a)
        for kind, desc in probs:
            ctx.violation('%s|%s' % (kind, a.split('\n')[1].split(' ')[0]), desc, files={'k.cfg': a})
    # (d) directives
    for kind, runs, probs, ok in pmap(_directive_case, [d + (i,) for i, d in enumerate(DIRECTIVES)]):
        ctx.evaluations += runs
        ctx.count('directive_cases')
        for k, desc in probs:
            ctx.violation(k, desc)
    # (e) whole configs of the test-suite: behavioural equality and idempotence
    tests = [t for t in corpus.tests() if t[3]]
    for tid, runs, verdict, probs in pmap(_behaviour_case, tests if not quick else sr.sample(tests, 300)):
        ctx.evaluations += runs
        ctx.count('behaviour_' + verdict)
        if verdict == 'ok':
            ctx.nt('beh', tid)
        for kind, desc in probs:
            ctx.violation('%s|%s' % (kind, tid), desc)
    ctx.rule = ('(a) every option x every enumerated/boundary/interior value and 24 hostile string values: load -> dump -> reload -> dump, with-doc agreement; '
                '(b) 11 spellings + --set per option; (c) option references incl. inverted; (d) directive kinds with 1..5 arguments, behavioural equality; '
                '(e) whole test-suite configs: F_K(x) == F_dump(K)(x); non-trivial = distinct case that loads and round-trips')
    ctx.sample(dict(value_case=list(sel[0][:3]), steps=['S1 = --update-config(K)', 'S2 = --update-config(S1)', 'S1 == S2', '--update-config-with-doc values == S1 values']))
    ctx.sample(dict(reference_case=refs[0][0], expected_same_as=refs[0][1]))
    ctx.assumptions += ['the dump (--update-config) is the observable of "the value an option has after loading"']
    ctx.require('value_cases', 1000)
    ctx.require('options_exercised', 400)


def classify_string(v):
    cls = []
    if '"' in v:
        cls.append('dquote')
    if '\\' in v:
        cls.append('backslash')
    if not cls:
        cls.append('plain:' + v)
    return '+'.join(cls)
