"""C12 - --check and --if-changed tell the truth and write nothing they should not."""
import os
import re
import shutil

from .. import build, corpus, fmt, run
from ..common import REPO, case_dir, pmap, rng, fixed_rng, scratch_root, sha

LEVEL = 'exploration'
PROP = 'C12'
CONFIGS = {'default': '', 'ben': None,
           'k1': 'indent_columns=4\nindent_with_tabs=0\nnl_end_of_file=force\nnl_end_of_file_min=1\nsp_arith=force\nsp_assign=force\nnewlines=lf\n',
           'auto': 'newlines=auto\nutf8_bom=ignore\nindent_with_tabs=2\n', 'hdr': None}


def header_file():
    """A comment template with characters outside Latin-1 (inserted text reaches the output through another path than source text)."""
    p = os.path.join(scratch_root(), 'c12-header.txt')
    if not os.path.exists(p):
        tmp = p + '.%d' % os.getpid()
        with open(tmp, 'wb') as f:
            f.write('/* \u00a9 2026 \u0159\u00ed\u010dka \u2014 \u20ac \u6f22\u5b57  */\n'.encode('utf-8'))
        os.replace(tmp, p)
    return p


def cfg_text(name):
    if name == 'hdr':
        return 'cmt_insert_file_header = "%s"\ncmt_insert_file_footer = "%s"\nindent_columns=4\nindent_with_tabs=0\n' % (header_file(), header_file())
    if name == 'ben':
        return open(os.path.join(REPO, 'etc', 'ben.cfg'), encoding='utf-8', errors='replace').read()
    return CONFIGS[name]


MB_COMMENT = '/* caf\u00e9 \u0159\u00ed\u010dka \u6f22\u5b57 \u20ac */\n'.encode('utf-8')


def read_input(rel):
    """'mb:<rel>' is the corpus file behind a comment with 2- and 3-byte characters (byte count != character count)."""
    if rel.startswith('mb:'):
        return MB_COMMENT + corpus.read(rel[3:])
    return corpus.read(rel)


def perturbations(x, F, r):
    ys = [('orig', x), ('formatted', F)]
    if len(F) > 2:
        ys.append(('last-byte-changed', F[:-1] + bytes([F[-1] ^ 0x01])))
        ys.append(('last-byte-removed', F[:-1]))
        ys.append(('byte-appended', F + b'\n'))
        ys.append(('space-appended', F + b' '))
        i = F.find(b' ', r.randrange(len(F)))
        if i > 0:
            ys.append(('inner-space-doubled', F[:i] + b' ' + F[i:]))
        j = r.randrange(len(F))
        ys.append(('byte-flipped-same-size', F[:j] + bytes([F[j] ^ 0x20 if F[j] != 0x0a else 0x20]) + F[j + 1:]))
        if b'\r' not in F:
            ys.append(('crlf', F.replace(b'\n', b'\r\n')))
        if F.startswith(b'\xef\xbb\xbf'):
            ys.append(('bom-removed', F[3:]))
        else:
            ys.append(('bom-added', b'\xef\xbb\xbf' + F))
        ys.append(('first-byte-only', F[:1]))
    ys.append(('empty', b''))
    return ys


def snap(d):
    out = {}
    for root, dirs, fns in os.walk(d):
        for fn in fns + dirs:
            p = os.path.join(root, fn)
            st = os.lstat(p)
            data = open(p, 'rb').read() if os.path.isfile(p) else None
            out[os.path.relpath(p, d)] = (st.st_ino, st.st_size, st.st_mtime_ns, st.st_ctime_ns, st.st_mode, data)
    return out


def truth(y, lang, K):
    f = fmt.fmt(y, lang, K)
    if f.res.signal or f.res.cpu_timeout:
        return ('hard', None)
    if f.out is None:
        return ('refused', None)
    return ('same' if f.out == y else 'differs', f.out)


def _case(t):
    rel, lang, cfgname, idx = t
    r = fixed_rng(PROP, 'case:%s:%s:%d' % (rel, cfgname, idx))
    K = cfg_text(cfgname)
    cfg = fmt.cfg_file(K)
    x = read_input(rel)
    b = build.binary('plain')
    base = fmt.fmt(x, lang, K)
    if base.out is None:
        return dict(skip=True)
    ys = perturbations(x, base.out, r)
    ext = corpus.ext_for(lang)
    probs = []
    stats = dict(check_runs=0, files_judged=0, pass_lines=0, fail_lines=0, ifc_runs=0, nontrivial=[], truths={})
    truths = []
    for tag, y in ys:
        tr = truth(y, lang, K)
        truths.append((tag, y, tr))
        stats['truths'][tr[0]] = stats['truths'].get(tr[0], 0) + 1
    truths = [t3 for t3 in truths if t3[2][0] != 'hard']
    top = case_dir('c12')
    try:
        # --- single-file and batch --check ---------------------------------------
        groups = [[t3] for t3 in truths]
        for _ in range(3):
            k = r.randint(2, min(8, len(truths)))
            groups.append(r.sample(truths, k))
        for gi, g in enumerate(groups):
            d = os.path.join(top, 'chk%d' % gi)
            os.makedirs(d)
            names = []
            for i, (tag, y, tr) in enumerate(g):
                n = 'f%d_%s%s' % (i, tag, ext)
                names.append(n)
                with open(os.path.join(d, n), 'wb') as f:
                    f.write(y)
            before = snap(d)
            quiet = r.random() < 0.25
            how = r.choice(['positional', 'list'])
            args = ['-c', cfg, '-l', lang, '--check'] + (['-q'] if quiet else [])
            listfile = None
            if how == 'list':
                listfile = os.path.join(top, 'list%d.txt' % gi)
                with open(listfile, 'w') as f:
                    f.write('\n'.join(names) + '\n')
                args += ['-F', listfile]
            else:
                args += names
            res = run.run(b, args, cwd=d)
            stats['check_runs'] += 1
            after = snap(d)
            if before != after:
                ch = sorted(k for k in set(before) | set(after) if before.get(k) != after.get(k))
                probs.append(('check-touches-files', '--check changed/created %s (group %s)' % (ch, names)))
            text = (res.stdout + b'\n' + res.stderr).decode(errors='replace')
            all_same = all(tr[0] == 'same' for _, _, tr in g)
            if (res.status == 0) != all_same:
                probs.append(('check-exit-wrong', '--check exit %s but truths %s (files %s, %s)' % (
                    res.status, [tr[0] for _, _, tr in g], names, how)))
            # per-file lines: judged up to the first refused member (exit() ends the run there)
            for n, (tag, y, tr) in zip(names, g):
                if tr[0] == 'refused':
                    break
                stats['files_judged'] += 1
                np_ = len(re.findall(r'^PASS: %s \(' % re.escape(n), text, re.M))
                nf = len(re.findall(r'^FAIL: %s \(' % re.escape(n), text, re.M))
                stats['pass_lines'] += np_
                stats['fail_lines'] += nf
                if tr[0] == 'same':
                    if nf or (np_ != (0 if quiet else 1)):
                        probs.append(('check-report-wrong', 'file %s is reproduced but PASS=%d FAIL=%d (quiet=%s)' % (n, np_, nf, quiet)))
                else:
                    if np_ or nf != 1:
                        probs.append(('check-report-wrong', 'file %s would change but PASS=%d FAIL=%d' % (n, np_, nf)))
            if any(tr[0] == 'differs' for _, _, tr in g):
                stats['nontrivial'].append(('check', gi))
        # --- --check together with an output option is refused --------------------
        d = os.path.join(top, 'chko')
        os.makedirs(d)
        with open(os.path.join(d, 'a' + ext), 'wb') as f:
            f.write(x)
        before = snap(d)
        for extra in (['--replace'], ['--no-backup'], ['-o', 'out.txt'], ['--suffix', '.x'], ['--prefix', 'p'], ['--if-changed']):
            a = ['-c', cfg, '-l', lang, '--check'] + extra + (['-f', 'a' + ext] if extra[0] == '-o' else ['a' + ext])
            res = run.run(b, a, cwd=d)
            if res.status == 0 or snap(d) != before:
                probs.append(('check-with-output-option', '--check %s: exit %s, files changed: %s' % (extra, res.status, snap(d) != before)))
        # --- --if-changed -------------------------------------------------------------
        for tag, y, tr in truths:
            if tr[0] == 'refused':
                continue
            n = 'g' + ext
            for mode in ('stdout', '-o', 'suffix', '--replace', '--no-backup'):
                d = os.path.join(top, 'ifc_%s_%s' % (tag, mode.strip('-')))
                os.makedirs(d)
                with open(os.path.join(d, n), 'wb') as f:
                    f.write(y)
                before = snap(d)
                a = ['-q', '-c', cfg, '-l', lang, '--if-changed']
                if mode == 'stdout':
                    a += ['-f', n]
                    target = None
                elif mode == '-o':
                    a += ['-f', n, '-o', 'out.txt']
                    target = 'out.txt'
                elif mode == 'suffix':
                    a += [n]
                    target = n + '.uncrustify'
                else:
                    a += [mode, n]
                    target = n
                res = run.run(b, a, cwd=d)
                stats['ifc_runs'] += 1
                after = snap(d)
                if res.status != 0:
                    probs.append(('if-changed-status', '--if-changed %s on %s: exit %s' % (mode, tag, res.status)))
                    continue
                if tr[0] == 'same':
                    if mode == 'stdout':
                        if res.stdout:
                            probs.append(('if-changed-writes-unchanged', 'stdout mode wrote %d bytes for an unchanged file (%s)' % (len(res.stdout), tag)))
                    elif target == n:
                        if before[n] != after.get(n):
                            probs.append(('if-changed-writes-unchanged', '%s touched the unchanged target (%s)' % (mode, tag)))
                    elif target in after:
                        probs.append(('if-changed-writes-unchanged', '%s created %s for an unchanged file (%s)' % (mode, target, tag)))
                else:
                    got = res.stdout if mode == 'stdout' else (after[target][5] if target in after else None)
                    if got != tr[1]:
                        probs.append(('if-changed-wrong-bytes', '%s on %s: wrote %s, a normal run writes %s' % (
                            mode, tag, 'nothing' if got is None else sha(got), sha(tr[1]))))
                    stats['nontrivial'].append(('ifc', tag, mode))
                if mode in ('stdout', '-o', 'suffix') and before[n] != after.get(n):
                    probs.append(('if-changed-touches-source', '%s modified the source file (%s)' % (mode, tag)))
                shutil.rmtree(d, ignore_errors=True)
        return dict(skip=False, rel=rel, cfg=cfgname, probs=probs, stats=stats)
    finally:
        shutil.rmtree(top, ignore_errors=True)


def check(ctx):
    build.binary('plain')
    quick = ctx.tier == 'quick'
    sr = rng(PROP, 'select')
    files = corpus.files()
    n = 300 if quick else 1345
    tasks = []
    for i, (rel, lang) in enumerate(sr.sample(files, min(n, len(files)))):
        tasks.append((rel, lang, sr.choice(sorted(CONFIGS)), i))
    # inputs whose byte count differs from their character count are in every run: the corpus files with non-ASCII bytes under
    # every config, and ASCII files behind a multi-byte comment
    multibyte = [(rel, lang) for rel, lang in files if any(c > 127 for c in corpus.read(rel)[:65536])]
    for rel, lang in multibyte:
        for cfgname in sorted(CONFIGS):
            tasks.append((rel, lang, cfgname, len(tasks)))
    ascii_files = [(rel, lang) for rel, lang in files if (rel, lang) not in multibyte and len(corpus.read(rel)) < 6000]
    for rel, lang in sr.sample(ascii_files, 24 if quick else 200):
        tasks.append(('mb:' + rel, lang, sr.choice(sorted(CONFIGS)), len(tasks)))
    ctx.count('multibyte_inputs', sum(1 for t in tasks if t[0].startswith('mb:') or (t[0], t[1]) in multibyte))
    ctx.rule = ('per (corpus file, config): y in {x, F(x), 10 one-byte/size/terminator/BOM perturbations of F(x), empty}; ground truth same(y) from a '
                'normal -f run; --check singly and in batches of 2..8 (positional / -F), with directory snapshots (inode, size, mtime, ctime, '
                'mode, bytes); --if-changed in 5 output modes; non-trivial = distinct (file, config, group) containing a member that would change')
    for r in pmap(_case, tasks, chunksize=1):
        if r['skip']:
            ctx.count('inputs_rejected_skipped')
            continue
        st = r['stats']
        ctx.evaluations += st['check_runs'] + st['ifc_runs']
        for k in ('check_runs', 'ifc_runs', 'files_judged', 'pass_lines', 'fail_lines'):
            ctx.count(k, st[k])
        for k, v in st['truths'].items():
            ctx.count('truth_' + k, v)
        for nt in st['nontrivial']:
            ctx.nt(r['rel'], r['cfg'], nt)
        for kind, desc in r['probs']:
            ctx.violation('%s|%s|%s' % (kind, r['cfg'], r['rel']), 'tests/input/%s config %s: %s' % (r['rel'], r['cfg'], desc),
                          files={'input': read_input(r['rel']), 'config.cfg': cfg_text(r['cfg'])})
    ctx.sample(dict(file=tasks[0][0], config=tasks[0][2], perturbations=['orig', 'formatted', 'last-byte-changed', 'last-byte-removed',
                                                                         'byte-appended', 'inner-space-doubled', 'crlf', 'bom-added', 'empty']))
    ctx.assumptions += ['ground truth for "would be reproduced" comes from a normal -f run (C10 ties the modes together)',
                        'a member that cannot be parsed ends a --check run with an error status; PASS/FAIL lines are judged up to that member']
    ctx.require('files_judged', 500)
    ctx.require('multibyte_inputs', 50)
    ctx.require('pass_lines', 50)
    ctx.require('fail_lines', 200)
