"""C02 - token stream preserved exactly under whitespace-only configurations."""
import os

from .. import build, cfggen, corpus, fmt, inject, lex, minimise, mutate, registry, tokoracle
from ..common import pmap, rng, fixed_rng, sha

LEVEL = 'exploration'
PROP = 'C02'
PAIR_TOKENS = ['+', '-', '*', '/', '%', '&', '|', '^', '~', '!', '<', '>', '=', '?', ':', '.', ',', ';', '(', ')', '[', ']',
               '++', '--', '->', '<<', '>>', '<=', '>=', '==', '!=', '&&', '||', '+=', '-=', '*=', '/=', '&=', '|=', '::', '...',
               'a', '1', '1.', '.5', '1e', '0x1e', '"s"', "'c'", 'L', 'u8', 'R', 'return', 'case', 'sizeof', '0x1', '1u']


def judge(x, lang, assign, strict=False):
    """Format x with the assignment; -> (status, violations, notes, changed)."""
    K = cfggen.text(assign)
    a = fmt.fmt(x, lang, K, dump=True)
    if a.out is None:
        return ('rejected' if not (a.res.signal or a.res.cpu_timeout) else 'hard', [], [], False)
    if not a.dump or not a.dump['T']:
        return ('nodump', [], [], False)
    b = fmt.fmt(a.out, lang, '', dump=True)
    if b.dump is None or not b.dump['T'] and a.dump['T']:
        if b.res.status not in (0, None) or b.res.signal:
            return ('ok', [('output-rejected', 'second pass refuses the output', 'output of an accepted input is not accepted (%s)' % b.res.how())], [], True)
        return ('nodump', [], [], False)
    v, notes = tokoracle.compare(x, a.out, lang, a.dump['T'], b.dump['T'], strict=strict)
    return ('ok', v, notes, a.out != x)


def _case(t):
    cid, src, lang, assign, do_min = t
    if isinstance(src, tuple):
        kind = src[0]
        if kind == 'corpus':
            x = corpus.read(src[1])
        elif kind == 'mutant':
            x = mutate.mutate(corpus.read(src[1]), fixed_rng(PROP, 'mut:%s:%d' % (src[1], src[2])))
        elif kind == 'inject':
            base = corpus.read(src[1])
            if src[1] in ('cpp/align-330.cpp', 'sql/mysql.sqc', 'oc/available.m') or any(
                    t.kind == 'comment' and t.text.startswith('//') and ('\n' in t.text or '\r' in t.text) for t in lex.lex(base, lang)):
                # files with a listed default-config finding (C02-008/010, C03-004 '@available') or a backslash-spliced '//' comment (C03-001) are not re-judged here
                return (cid, 'unclean-input', [], [], False, None)
            if b'\x00' in base or base[:2] in (b'\xff\xfe', b'\xfe\xff') or b'INDENT-O' in base or b'asm' in base or b'<#' in base \
                    or not tokoracle.well_lexed(lex.lex(base, lang)):
                return (cid, 'unclean-input', [], [], False, None)
            x = inject.inject_comments(base, lang, fixed_rng(PROP, 'inj:%s:%d' % (src[1], src[2])), allow_cont=False)
            if x is None or lex.code_stream(lex.lex(x, lang)) != lex.code_stream(lex.lex(base, lang)):
                return (cid, 'unclean-input', [], [], False, None)
        elif kind == 'ppunit':
            # a one-construct unit with a '#pragma' line at every line boundary (variant 0) or at every second one (variants 1, 2)
            from .c20 import NL_UNITS
            lines = NL_UNITS[src[1]][1].split(b'\n')
            out_lines = []
            for k, l in enumerate(lines):
                if k > 0 and l.strip() and (src[2] == 0 or (k + src[2]) % 2 == 0):
                    out_lines.append(b'#pragma vfd %d' % k)
                out_lines.append(l)
            x = b'\n'.join(out_lines)
        elif kind == 'ppinject':
            # '#ifdef' / '#endif' lines around seeded line ranges: a token that a newline option moves must not cross a directive
            from .c07 import insertion_points
            base = corpus.read(src[1])
            if b'\x00' in base or base[:2] in (b'\xff\xfe', b'\xfe\xff') or b'INDENT-O' in base or b'asm' in base or b'<#' in base or b'\r' in base \
                    or src[1] in ('cpp/align-330.cpp', 'sql/mysql.sqc', 'oc/available.m') or not tokoracle.well_lexed(lex.lex(base, lang)):
                return (cid, 'unclean-input', [], [], False, None)
            pts = insertion_points(base, lang)
            fr = fixed_rng(PROP, 'ppinj:%s:%d' % (src[1], src[2]))
            if len(pts) < 4:
                return (cid, 'unclean-input', [], [], False, None)
            lines = base.split(b'\n')
            ins = {}
            for n in range(min(6, len(pts) // 3)):
                i, j = sorted(fr.sample(pts, 2))
                if j - i > 12:
                    j = min(j, next((q for q in pts if q > i), j))
                ins.setdefault(i, []).append(b'#ifdef VFD%d' % n)
                ins.setdefault(j, []).insert(0, b'#endif')
            out_lines = []
            for k, l in enumerate(lines):
                # closers before openers at one boundary keep the pairs properly nested or disjoint
                for d in sorted(ins.get(k, []), key=lambda d: 0 if d == b'#endif' else 1):
                    out_lines.append(d)
                out_lines.append(l)
            x = b'\n'.join(out_lines)
            if not tokoracle.well_lexed(lex.lex(x, lang)):
                return (cid, 'unclean-input', [], [], False, None)
        else:
            x = src[1]
    else:
        x = src
    if isinstance(src, tuple) and src[0] == 'mutant':
        # a mutant with an unterminated literal/comment, stray bytes or a disabled region is not judged:
        # how such garbage is to be lexed is not defined by any language rule
        if not tokoracle.well_lexed(lex.lex(x, lang)) or b'asm' in x or b'INDENT-O' in x:
            return (cid, 'unclean-mutant', [], [], False, None)
    strict = cid.startswith('bsblank:')       # these inputs are read by the strict phase-2 rule (as uncrustify reads them)
    status, v, notes, changed = judge(x, lang, assign, strict)
    out = []
    for kind, locus, detail in v:
        small = assign
        if do_min and len(assign) >= 1:
            def pred(sub, kind=kind):
                st, vv, _, _ = judge(x, lang, sub, strict)
                return any(k == kind for k, _, _ in vv)
            small = minimise.minimise_cfg(assign, pred, max_runs=40)
        out.append((kind, locus, detail, small))
    return (cid, status, out, notes, changed, x if out else None)


def pair_snippets(lang):
    out = []
    for a in PAIR_TOKENS:
        for b in PAIR_TOKENS:
            out.append(('pair:%s:%s:%s' % (lang, a, b), ('text', ('void f(void)\n{\n   x = p %s %s q;\n}\n#define M(p, q) p %s %s q\n' % (a, b, a, b)).encode()), lang))
    return out


def check(ctx):
    b = build.binary('plain')
    quick = ctx.tier == 'quick'
    sr = rng(PROP, 'select')
    opts = registry.options(b)
    by_name = {o.name: o for o in opts}
    files = corpus.files()
    curated = {n: cfggen.curated(opts, n) for n in cfggen.CURATED_WS}
    tasks = []
    # corpus x curated configs
    ncfg = 3 if quick else len(curated)
    for rel, lang in files:
        names = ['default'] + sr.sample([n for n in curated if n != 'default'], ncfg - 1) if quick else sorted(curated)
        for n in names:
            tasks.append(('corpus:%s:%s' % (rel, n), ('corpus', rel), lang, curated[n], True))
    # corpus x joint whitespace draws: fixed universe, VERIF_SEED selects the members
    full = bool(os.environ.get('VERIF_FULL'))
    JOINT_U, TCFG_U = 40000, 20000
    ctx.extra['joint_universe'] = JOINT_U
    for i in (range(JOINT_U) if full else sr.sample(range(JOINT_U), 600 if quick else 12000)):
        fr = fixed_rng(PROP, 'joint%d' % i)
        rel, lang = files[fr.randrange(len(files))]
        tasks.append(('joint:%d:%s' % (i, rel), ('corpus', rel), lang, cfggen.joint(opts, fr), True))
    # corpus x whitespace-only configs of the test-suite: fixed universe of pairs
    tcfgs = [c for c in corpus.test_configs()
             if cfggen.file_config_in_classes(os.path.join(corpus.REPO, 'tests', 'config', c), by_name, {'whitespace'})]
    ctx.extra['whitespace_only_test_configs'] = len(tcfgs)
    ctx.extra['tcfg_universe'] = TCFG_U
    for i in (range(TCFG_U) if full else sr.sample(range(TCFG_U), 300 if quick else 6000)):
        fr = fixed_rng(PROP, 'tcfg%d' % i)
        rel, lang = files[fr.randrange(len(files))]
        c = tcfgs[fr.randrange(len(tcfgs))]
        assign, _ = cfggen.load_cfg_file(os.path.join(corpus.REPO, 'tests', 'config', c))
        assign = {k: v for k, v in assign.items() if not cfggen.is_slow(k, v)}
        tasks.append(('tcfg:%d:%s:%s' % (i, rel, c), ('corpus', rel), lang, assign, True))
    # mutants (fixed universe: 8 per corpus file)
    universe = [(rel, lang, k) for rel, lang in files for k in range(8)]
    ctx.extra['mutant_universe'] = len(universe)
    for rel, lang, k in sr.sample(universe, 1200 if quick else len(universe)):
        n = fixed_rng(PROP, 'mutcfg:%s:%d' % (rel, k)).choice(sorted(curated))
        tasks.append(('mut:%s:%d:%s' % (rel, k, n), ('mutant', rel, k), lang, curated[n], True))
    # comment injections (fixed universe: 4 per C-family corpus file) under combined newline/position/space families: a token that
    # slips behind a '//' comment leaves the non-comment stream
    combos = {n: cfggen.combo(opts, n) for n in cfggen.COMBOS}
    inj_u = [(rel, lang, k) for rel, lang in files if lang in ('C', 'CPP', 'OC', 'OC+', 'JAVA', 'CS') for k in range(4)]
    ctx.extra['injection_universe'] = len(inj_u) * len(combos)
    for rel, lang, k in sr.sample(inj_u, 700 if quick else len(inj_u)):
        for n in (fixed_rng(PROP, 'injcfg:%s:%d' % (rel, k)).sample(sorted(combos), 3) if quick else sorted(combos)):
            tasks.append(('inject:%s:%d:%s' % (rel, k, n), ('inject', rel, k), lang, combos[n], True))
    # directive injections (fixed universe: 3 per C-family corpus file) under the same families
    ppu = [(rel, lang, k) for rel, lang in files if lang in ('C', 'CPP', 'OC', 'OC+', 'CS') for k in range(3)]
    ctx.extra['directive_injection_universe'] = len(ppu) * len(combos)
    for rel, lang, k in sr.sample(ppu, 500 if quick else len(ppu)):
        for n in (fixed_rng(PROP, 'ppcfg:%s:%d' % (rel, k)).sample(sorted(combos), 3) if quick else sorted(combos)):
            tasks.append(('ppinject:%s:%d:%s' % (rel, k, n), ('ppinject', rel, k), lang, combos[n], True))
    # every newline add/remove and position option singly at every value over one-construct units whose lines are separated by directives
    from .c20 import NL_UNITS
    movers = [o for o in opts if o.cls == 'whitespace' and ((o.name.startswith('nl_') and o.type in ('iarf', 'bool')) or o.name.startswith('pos_'))]
    units = [u for u in sorted(NL_UNITS) if not (u.startswith('cpp-') and ('c-' + u[4:]) in NL_UNITS)]
    ctx.extra['directive_units'] = len(units)
    for o in movers:
        for val in registry.values_for(o):
            if str(val).lower() == str(o.default).lower() or cfggen.is_slow(o.name, val):
                continue
            for u in units:
                for variant in ((0,) if quick else (0, 1, 2)):
                    tasks.append(('ppunit:%s:%d:%s=%s' % (u, variant, o.name, val), ('ppunit', u, variant), NL_UNITS[u][0], {o.name: str(val)}, False))
    # '//' comments ending in backslash + blanks (no splice under the strict phase-2 rule): stripping the blanks would swallow the next line
    for lang in ('C', 'CPP', 'OC'):
        for bi, blanks in enumerate((b' ', b'\t', b'  \t ', b'   ')):
            for ci, txt in enumerate((b'int a; // note \\%s\nint b = tbl[i & 3];\nint c;\n', b'// path C:\\dir\\%s\nvoid f(void)\n{\n   g(1); // x \\%s\n   h(2);\n}\n')):
                src = txt.replace(b'%s', blanks)
                for n in sorted(curated):
                    tasks.append(('bsblank:%s:%d:%d:%s' % (lang, bi, ci, n), ('text', src), lang, curated[n], False))
    # pair table: every ordered pair of token classes, all sp_ options at remove / force
    pairs = pair_snippets('C') + pair_snippets('CPP')
    ctx.extra['pair_table'] = len(pairs)
    for cid, src, lang in (sr.sample(pairs, 1500) if quick else pairs):
        for n in (('sp_remove',) if quick else ('sp_remove', 'sp_force', 'default')):
            tasks.append((cid + ':' + n, src, lang, curated[n], True))
    ctx.rule = ('cases: corpus x 13 curated whitespace configs, seeded joint whitespace draws, whitespace-only test configs, byte mutants, '
                'token-pair table (every ordered pair of %d token classes) under all sp_=remove/force; oracles: non-comment character stream and '
                'directive flags (T dumps), token boundaries by an independent lexer (precise for C/C++/ObjC/Java/C#), own tokenizer re-lex; '
                'non-trivial = distinct case accepted by uncrustify whose bytes changed' % len(PAIR_TOKENS))
    seen = {}
    for cid, status, viols, notes, changed, x in pmap(_case, tasks):
        ctx.evaluations += 2 if status == 'ok' else 1
        ctx.count('cases_' + cid.split(':')[0])
        ctx.count('status_' + status)
        for n in notes:
            ctx.count('note_' + n.split(':')[0])
        if status == 'ok' and changed:
            ctx.nt(cid)
        for kind, locus, detail, small in viols:
            optkey = ','.join(sorted(small)) if len(small) <= 3 else '%d-options' % len(small)
            if not small:
                # fails under the built-in defaults: the finding is tied to the input itself
                optkey = 'default:' + (cid.split(':')[2] if cid.startswith(('joint', 'tcfg')) else ':'.join(cid.split(':')[1:-1]))
            if cid.startswith('mut:'):
                optkey = cid
            if locus.startswith(('fuse:ppnumber', 'fuse:digraph', 'split:digraph', 'fuse:comment-start')):
                optkey = '*'      # one root cause (the fusion guard does not know the construct) whatever option removed the space
            key = ('%s|%s|%s' % (kind, locus[:80], optkey)).replace('\n', ' ').replace('\r', ' ')
            if key not in seen:
                seen[key] = True
                ctx.violation(key, '%s (case %s): %s\n  minimal options: %s' % (kind, cid, detail, small),
                              files={'input': x, 'config.cfg': cfggen.text(small)})
    ctx.sample(dict(case=tasks[0][0], config_options=len(tasks[0][3])))
    ctx.sample(dict(case=tasks[-1][0], snippet=tasks[-1][1][1].decode() if tasks[-1][1][0] == 'text' else None))
    ctx.assumptions += ['a ">>" whose parts close templates/generics may be written "> >" (language rule); "[ ]" vs "[]" is a chunk merge',
                        'for D, Vala, Pawn, ECMAScript (and C# files with interpolated strings) a boundary change is reported only when the independent lexer and the own tokenizer both see it',
                        'inputs uncrustify refuses are not judged here (C06)']
    ctx.require('status_ok', 2000)
