"""C17 - whitespace hygiene of the output: trailing blanks, end of file, tab/space discipline of the indentation."""
import re

from .. import build, cfggen, corpus, fmt, layout, lex, minimise, registry, tokoracle
from ..common import pmap, rng, fixed_rng

LEVEL = 'exploration'
PROP = 'C17'
NL = re.compile(rb'\r\n|\r|\n')

EOF_OPTS = ('nl_end_of_file', 'nl_end_of_file_min')


def eff(assign, by_name, name):
    v = assign.get(name)
    return v if v is not None else by_name[name].default


def judge_output(out, lang, assign, by_name, x_ends_in_token=True):
    """-> (violations [(kind, detail)], stats dict)."""
    v = []
    st = dict(lines=0, lead_judged=0, trail_judged=0, pp_judged=0, eof_judged=0)
    toks = lex.lex(out, lang)
    info = lex.line_info(out, lang, toks)
    iwt = int(eff(assign, by_name, 'indent_with_tabs'))
    ppt = int(eff(assign, by_name, 'pp_indent_with_tabs'))
    if ppt < 0:
        ppt = iwt
    blank_indent = eff(assign, by_name, 'indent_single_newlines') == 'true'
    s = out
    for k, li in enumerate(info):
        line = s[li['start']:li['end']]
        if li['start'] >= len(s) and not line:
            continue
        st['lines'] += 1
        if li['inside']:
            continue            # continuation line of a comment or literal
        stripped = line.strip(b' \t')
        # --- trailing blanks
        if li['tail'] is None and line != line.rstrip(b' \t'):
            if not stripped and blank_indent:
                pass
            elif not (li['pp'] and line.rstrip(b' \t').endswith(b'\\')):
                code = line.rstrip(b' \t')
                locus = 'blank-line' if not stripped else ('attribute' if code.endswith(b'[[') or code.endswith(b']]') else
                                                          'after:' + tokoracle.gen(re.findall(rb'[A-Za-z_0-9]+|[^A-Za-z_0-9\s]', code)[-1].decode('latin-1')))
                v.append(('trailing-blank|' + locus, 'line %d ends in a blank outside comments/literals: %r' % (k + 1, line[-40:])))
        if li['tail'] is None:
            st['trail_judged'] += 1
        if not stripped:
            # a whitespace-only line is indentation and nothing else: it follows indent_with_tabs like any code line
            if blank_indent and line:
                st['blank_judged'] = st.get('blank_judged', 0) + 1
                if iwt == 0 and b'\t' in line:
                    v.append(('tab-in-indent|blank-line', 'line %d: tab in a whitespace-only line with indent_with_tabs=0: %r' % (k + 1, line[:40])))
                elif iwt in (1, 2) and b' \t' in line:
                    v.append(('space-before-tab|blank-line', 'line %d: a space precedes a tab in a whitespace-only line with indent_with_tabs=%d: %r' % (
                        k + 1, iwt, line[:40])))
            continue
        lead = line[:len(line) - len(line.lstrip(b' \t'))]
        is_pp_first = li.get('pp_first', False) or stripped.startswith((b'__pragma', b'_Pragma'))
        pp_cont = li['pp'] and not is_pp_first
        mode = ppt if (is_pp_first or pp_cont) else iwt
        if is_pp_first or pp_cont:
            st['pp_judged'] += 1
        else:
            st['lead_judged'] += 1
        cls = 'pp' if is_pp_first else 'pp-continuation' if pp_cont else ('comment-line' if stripped.startswith((b'//', b'/*', b'/+')) else 'code-line')
        if mode == 0 and b'\t' in lead:
            v.append(('tab-in-indent|' + cls, 'line %d: tab in the leading whitespace with %s=0: %r' % (
                k + 1, 'pp_indent_with_tabs' if (is_pp_first or pp_cont) else 'indent_with_tabs', line[:40])))
        elif mode in (1, 2) and b' \t' in lead:
            v.append(('space-before-tab|' + cls, 'line %d: a space precedes a tab in the indentation with %s=%d: %r' % (
                k + 1, 'pp_indent_with_tabs' if (is_pp_first or pp_cont) else 'indent_with_tabs', mode, line[:40])))
    # --- end of file
    eo = eff(assign, by_name, 'nl_end_of_file')
    mn = int(eff(assign, by_name, 'nl_end_of_file_min'))
    last = toks[-1] if toks else None
    if last is not None and eo != 'ignore' and not (last.kind in ('comment', 'str', 'chr') and last.end >= len(out)) and not (eo == 'add' and mn == 0):
        tail = out[last.end:] if last.kind != 'eod' else out[last.start:]
        if last.kind == 'eod':
            # the directive ends at the terminator: count from the end of the previous token
            prev = [t for t in toks if t.kind not in ('eod', 'dir')]
            tail = out[prev[-1].end:] if prev else out
        n = len(NL.findall(tail))
        junk = NL.sub(b'', tail).strip(b' \t')
        if not junk:
            st['eof_judged'] += 1
            if eo == 'remove' and n != 0:
                v.append(('eof', 'nl_end_of_file=remove but the file ends with %d line break(s)' % n))
            elif eo == 'force' and n != mn:
                v.append(('eof', 'nl_end_of_file=force, min=%d but the file ends with %d line break(s)' % (mn, n)))
            elif eo == 'add' and n < mn:
                v.append(('eof', 'nl_end_of_file=add, min=%d but the file ends with %d line break(s)' % (mn, n)))
    return v, st


PP_HOSTS = {
    'c': ('C', b"""int f(int a)
{
   if (a) {
      while (a) {
#define LIMIT 10

         a--;
#if defined(X)

         a++;
#else

         a += 2;
#endif

#pragma once_more

         switch (a) {
         case 1:
#undef LIMIT

            break;
         }
      }
   }

   return a;
}
"""),
    'cs': ('CS', b"""class A {
   int F(int a) {
      if (a > 0) {
         while (a > 1) {
#region inner

            a--;
#if X

            a++;
#endif

#endregion

         }
      }

      return a;
   }
}
"""),
    'cpp': ('CPP', b"""namespace n {
class K {
public:
   int f(int a) {
      for (;;) {
         if (a) {
#ifdef Y

            a--;
#elif defined(Z)

            a++;
#endif

#line 100

            break;
         }
      }

      return a;
   }
};
}
"""),
}


MACRO_HOSTS = {
    'c': ('C', b"""#define SWAP(a, b)   \\
   do {              \\
      int t = a;   \\
      a = b; b = t;  \\
   } while (0)   
#define ONE 1   
#define TWO(x) \\
   ((x) + \\
    2)\t 
int f(int a, int b)   
{
   SWAP(a, b);   
#define LOCAL(v) \\
      ((v) * 2)  
   return LOCAL(a) + ONE;\t
}
"""),
    'cpp': ('CPP', b"""#define DECL(n) \\
   class n {     \\
   public:       \\
      int v;     \\
   }  
DECL(K);   
template<typename T> T id(T v) { return v; }  
#define CALL(x) id<int>(x)  \t
int g(int a) { return CALL(a) >>= 1; }   
"""),
}


def load_input(spec):
    kind = spec[0]
    if kind == 'corpus':
        x = corpus.read(spec[1])
    elif kind == 'hostile':
        x = corpus.read(spec[1])
        x = NL.sub(b'\n', x)
        x = layout.hostile(x, spec[2], fixed_rng(PROP, 'host:%s:%d' % (spec[1], spec[3])))
    else:
        x = spec[1]
    return x


def usable(x):
    return not (b'INDENT-O' in x or b'asm' in x or b'\x00' in x or x[:2] in (b'\xff\xfe', b'\xfe\xff'))


def _case(t):
    cid, spec, lang, assign = t
    x = load_input(spec)
    if not usable(x) or spec[1] in ('cpp/align-330.cpp',):
        # align-330.cpp starts with a lone backslash line: whether its '#define' is a directive is read differently by uncrustify (C02-008)
        return dict(cid=cid, status='skipped')
    if spec[0] != 'text' and not tokoracle.well_lexed(lex.lex(NL.sub(b'\n', corpus.read(spec[1])), lang)):
        return dict(cid=cid, status='input-not-well-lexed')
    if spec[0] == 'hostile':
        base = NL.sub(b'\n', corpus.read(spec[1]))
        if lex.code_stream(lex.lex(base, lang)) != lex.code_stream(lex.lex(x, lang)):
            return dict(cid=cid, status='layout-discarded')
    b = build.binary('plain')
    by_name = registry.by_name(b)
    f = fmt.fmt(x, lang, cfggen.text(assign))
    if f.out is None:
        return dict(cid=cid, status='hard' if (f.res.signal or f.res.cpu_timeout) else 'rejected')
    if not tokoracle.well_lexed(lex.lex(f.out, lang)):
        return dict(cid=cid, status='output-not-well-lexed')
    v, st = judge_output(f.out, lang, assign, by_name)
    out = []
    seen = set()
    for kind, detail in v:
        if kind in seen:
            continue
        seen.add(kind)
        small = assign
        if len(assign) > 1:
            def pred(sub, kind=kind):
                ff = fmt.fmt(x, lang, cfggen.text(sub))
                if ff.out is None:
                    return False
                vv, _ = judge_output(ff.out, lang, sub, by_name)
                return any(k == kind for k, _ in vv)
            small = minimise.minimise_cfg(assign, pred, max_runs=60)
        out.append((kind, detail, small))
    if lang == 'PAWN':
        out = [(k + '|PAWN', d, sm) for k, d, sm in out]
    return dict(cid=cid, status='ok', viols=out, stats=st, nontrivial=f.out != x, input=x if out else None, n_viol=len(v))


TAB_GRID = [(iwt, ic, ots) for iwt in (0, 1, 2) for ic in (2, 3, 4, 8) for ots in (2, 3, 4, 8)]


def tab_config(fr):
    iwt, ic, ots = fr.choice(TAB_GRID)
    a = {'indent_with_tabs': str(iwt), 'indent_columns': str(ic), 'output_tab_size': str(ots), 'input_tab_size': str(fr.choice([2, 4, 8]))}
    for name, vals in (('align_with_tabs', ['true', 'false']), ('align_keep_tabs', ['true', 'false']), ('indent_cmt_with_tabs', ['true', 'false']),
                       ('pp_indent_with_tabs', ['-1', '0', '1', '2']), ('pp_indent', ['ignore', 'add', 'force', 'remove']),
                       ('pp_indent_count', ['1', '2', '4']), ('pp_indent_at_level', ['true', 'false']), ('pp_space_after', ['ignore', 'force']),
                       ('align_on_tabstop', ['true', 'false']), ('indent_align_string', ['true', 'false']), ('indent_col1_comment', ['true', 'false']),
                       ('align_assign_span', ['0', '2']), ('align_var_def_span', ['0', '2']), ('align_right_cmt_span', ['0', '3']),
                       ('align_nl_cont', ['0', '1']), ('align_func_params', ['true', 'false']), ('indent_paren_nl', ['true', 'false']),
                       ('nl_end_of_file', ['ignore', 'add', 'remove', 'force']), ('nl_end_of_file_min', ['0', '1', '2', '3']),
                       ('code_width', ['0', '60', '100']), ('indent_relative_single_line_comments', ['true', 'false']),
                       ('indent_continue', ['0', '3', '-4']), ('indent_switch_case', ['0', '3']), ('indent_var_def_cont', ['true', 'false'])):
        if fr.random() < 0.5:
            a[name] = fr.choice(vals)
    return a


def check(ctx):
    b = build.binary('plain')
    quick = ctx.tier == 'quick'
    sr = rng(PROP, 'select')
    opts = registry.options(b)
    files = corpus.files()
    tasks = []
    # fixed core: every (indent_with_tabs, indent_columns, output_tab_size) grid point on hostile layouts of the same 12 files
    core_files = [(rel, lang) for rel, lang in files if rel in (
        'c/align-proto.c', 'c/braces.c', 'c/switch.c', 'c/pp-nest.c', 'c/define-if-indent.c', 'cpp/class.h', 'cpp/templates.cpp', 'cpp/lambda.cpp',
        'java/annotation1.java', 'cs/simple.cs', 'd/d.d', 'oc/Fraction.m', 'c/cmt_multi.c', 'c/nl-cont.c', 'cpp/indent_namespace.h')]
    for (iwt, ic, ots) in TAB_GRID:
        for rel, lang in core_files:
            fr = fixed_rng(PROP, 'grid:%d:%d:%d:%s' % (iwt, ic, ots, rel))
            if quick and fr.random() > 0.34:
                continue
            a = {'indent_with_tabs': str(iwt), 'indent_columns': str(ic), 'output_tab_size': str(ots),
                 'align_with_tabs': fr.choice(['true', 'false']), 'pp_indent': fr.choice(['ignore', 'add']),
                 'pp_indent_with_tabs': fr.choice(['-1', '0', '1', '2'])}
            tasks.append(('grid:%d:%d:%d:%s' % (iwt, ic, ots, rel), ('hostile', rel, lang, 0), lang, a))
    # fixed universes; the seed selects members
    U = 80000
    ctx.extra['universe'] = U
    for i in sr.sample(range(U), 15000 if quick else U):
        fr = fixed_rng(PROP, 'u%d' % i)
        rel, lang = files[fr.randrange(len(files))]
        k = fr.random()
        if k < 0.55:
            a = tab_config(fr)
        elif k < 0.8:
            a = cfggen.joint(opts, fr)
            a.update({n: v for n, v in tab_config(fr).items() if n in ('indent_with_tabs', 'nl_end_of_file', 'nl_end_of_file_min', 'pp_indent_with_tabs')})
        else:
            a = dict(cfggen.curated(opts, fr.choice(['tabs', 'narrow', 'align', 'pos', 'pp', 'blank', 'nl_add', 'nl_remove', 'sp_force'])))
            a['indent_with_tabs'] = str(fr.choice([0, 1, 2]))
        a = {n: v for n, v in a.items() if n not in ('indent_single_newlines',) or fr.random() < 0.5}
        spec = ('hostile', rel, lang, fr.randrange(4)) if fr.random() < 0.7 else ('corpus', rel)
        tasks.append(('u:%d:%s' % (i, rel), spec, lang, a))
    # blank-line indentation explicitly requested: whitespace-only lines may carry blanks, other lines still may not
    for i in range(60 if quick else 600):
        fr = fixed_rng(PROP, 'isn%d' % i)
        rel, lang = files[fr.randrange(len(files))]
        a = tab_config(fr)
        a['indent_single_newlines'] = 'true'
        tasks.append(('isn:%d:%s' % (i, rel), ('hostile', rel, lang, 0), lang, a))
    # directives inside nested blocks followed by blank lines, under the whole tab grid with blank-line indentation on and off
    for hname, (hlang, htext) in sorted(PP_HOSTS.items()):
        for iwt in (0, 1, 2):
            for ppt in (-1, 0, 1, 2):
                for isn in ('true', 'false'):
                    for ic in (2, 4, 8):
                        for ots in (4, 8):
                            for ppi in ('ignore', 'add'):
                                a = {'indent_with_tabs': str(iwt), 'pp_indent_with_tabs': str(ppt), 'indent_single_newlines': isn, 'indent_columns': str(ic),
                                     'output_tab_size': str(ots), 'pp_indent': ppi}
                                tasks.append(('pphost:%s:%d:%d:%s:%d:%d:%s' % (hname, iwt, ppt, isn, ic, ots, ppi), ('text', htext), hlang, a))
    # multi-line macros whose lines end in blanks, under every combination of the options that change how a macro is read
    LEX = ('disable_processing_nl_cont', 'pp_ignore_define_body', 'tok_split_gte', 'enable_digraphs', 'use_form_feed_no_more_as_whitespace_character')
    for hname, (hlang, htext) in sorted(MACRO_HOSTS.items()):
        for bits in range(32):
            for iwt in (0, 1, 2):
                a = {n: ('true' if bits >> i & 1 else 'false') for i, n in enumerate(LEX)}
                a.update({'indent_with_tabs': str(iwt), 'pp_indent_with_tabs': str((bits + iwt) % 4 - 1), 'align_nl_cont': str(bits % 2),
                          'pp_indent': ('ignore', 'add')[iwt % 2]})
                tasks.append(('macro:%s:%d:%d' % (hname, bits, iwt), ('text', htext), hlang, a))
    ctx.rule = ('case = corpus file (all languages), 70 % re-laid-out with hostile whitespace (leading space/tab mixes, trailing blanks, whitespace-only '
                'lines, tabs between tokens; token stream checked unchanged by the independent lexer), formatted under tab/indent/align/pp/eof '
                'option draws.  Every output line is classified by the independent lexer (inside comment/literal, directive, code) and judged: '
                'no trailing blank where the line ends outside a comment/literal; leading whitespace free of tabs with indent_with_tabs=0 and '
                'free of space-before-tab with 1 or 2; directive lines by pp_indent_with_tabs; end of file by nl_end_of_file/_min.  '
                'non-trivial = accepted case whose output differs from the input')
    seen = set()
    tot = dict(lines=0, lead_judged=0, trail_judged=0, pp_judged=0, eof_judged=0, blank_judged=0)
    ok = []
    for r in pmap(_case, tasks):
        ctx.count('cases_' + r['cid'].split(':')[0])
        ctx.count('status_' + r['status'])
        if r['status'] != 'ok':
            ctx.evaluations += 1
            continue
        ctx.evaluations += 1
        ok.append(r)
        for k in tot:
            tot[k] += r['stats'].get(k, 0)
        if r['nontrivial']:
            ctx.nt(r['cid'])
        for kind, detail, small in r['viols']:
            optkey = ','.join('%s=%s' % kv for kv in sorted(small.items())) if len(small) <= 3 else '%d-options:%s' % (len(small), r['cid'])
            key = '%s|%s' % (kind, optkey)
            if kind.startswith('tab-in-indent|comment-line') and small.get('indent_cmt_with_tabs') == 'true':
                key = 'tab-in-indent|comment-line|indent_cmt_with_tabs=true'
            elif kind.startswith('trailing-blank'):
                key = '%s|%s' % (kind, r['cid'].split(':')[-1])
            elif not small:
                key = '%s|default:%s' % (kind, r['cid'].split(':')[-1])
            if key in seen:
                continue
            seen.add(key)
            ctx.violation(key, '%s (case %s): %s\n  minimal options: %s' % (kind, r['cid'], detail, small),
                          files={'input': r['input'], 'config.cfg': cfggen.text(small)})
    for k, n in tot.items():
        ctx.count('observed_' + k, n)
    for r in ok[:3]:
        ctx.sample(dict(case=r['cid'], lines=r['stats']['lines'], leading_ws_judged=r['stats']['lead_judged']))
    ctx.assumptions += ['continuation lines of comments, literals and directives are not judged (the statement excludes comments/literals; directive '
                        'continuations follow the alignment of the continuation)',
                        'files with disabled regions or UTF-16 are left to C07/C09',
                        'with indent_single_newlines=true whitespace-only lines may carry blanks']
    ctx.require('status_ok', 1500)
    ctx.require('observed_lead_judged', 40000)
    ctx.require('observed_pp_judged', 1000)
    ctx.require('observed_eof_judged', 500)
    ctx.require('observed_blank_judged', 500)
