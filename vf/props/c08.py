"""C08 - line endings: one consistent terminator, and formatting commutes with terminator conversion."""
import os
import re

from .. import build, corpus, fmt
from ..common import REPO, pmap, rng, fixed_rng, sha

LEVEL = 'exploration'
PROP = 'C08'
TERM = {'lf': b'\n', 'crlf': b'\r\n', 'cr': b'\r'}
SPLIT = re.compile(rb'\r\n|\r|\n')

BASE_CONFIGS = {
    'default': '',
    'ws': 'indent_columns=4\nindent_with_tabs=0\nsp_arith=force\nnl_max=3\nalign_assign_span=1\nnl_end_of_file=ignore\n',
    'mod': 'mod_full_brace_if=add\nmod_full_brace_for=add\nmod_paren_on_return=remove\nnl_fdef_brace=force\nnl_if_brace=remove\ncode_width=80\n',
    'cmt': 'cmt_cpp_to_c=true\ncmt_star_cont=true\ncmt_indent_multi=true\ncmt_width=60\ncmt_reflow_mode=1\nalign_right_cmt_span=2\n',
}


def lines_of(x):
    return SPLIT.split(x)


def conv(x, style, r=None):
    parts = lines_of(x)
    if style == 'mix':
        out = bytearray()
        for i, p in enumerate(parts):
            out += p
            if i + 1 < len(parts):
                # a lone CR before an empty line could pair up with the next LF into one CRLF
                out += r.choice([b'\n', b'\r\n', b'\r'] if parts[i + 1] else [b'\n', b'\r\n'])
        return bytes(out)
    return TERM[style].join(parts)


def census(x):
    """(lf, crlf, cr) counts of the input."""
    crlf = x.count(b'\r\n')
    return (x.count(b'\n') - crlf, crlf, x.count(b'\r') - crlf)


def _case(t):
    rel, lang, cfgname, idx, data = t
    x = data if data is not None else corpus.read(rel)
    if x[:2] in (b'\xff\xfe', b'\xfe\xff') or b'\x00' in x:
        return dict(skip='utf16-or-nul')
    r = fixed_rng(PROP, 'mix:%s:%d' % (rel, idx))
    K = BASE_CONFIGS[cfgname]
    probs = []
    stats = dict(runs=0, nontrivial=0, auto_judged=0, auto_ties=0)
    outs = {}
    uncounted = 0
    suspects = set()
    lone_cr_failed = set()

    def F(xx, nl, dump=False):
        stats['runs'] += 1
        return fmt.fmt(xx, lang, K + 'newlines=%s\n' % nl, dump=dump)

    xl = conv(x, 'lf')
    ref = {}
    for nl in ('lf', 'crlf', 'cr'):
        f = F(xl, nl, dump=(nl == 'lf'))
        if nl == 'lf' and f.dump:
            # line breaks the tokenizer does not count as newline chunks (inside comments, literals, continuations)
            T = f.dump['T']
            counted = 0
            for c in T:
                if '\n' in c.text:
                    if c.type.startswith('COMMENT'):
                        if '\\\n' in c.text:
                            suspects.add('line-break-after-backslash-in-comment')
                    elif c.type.startswith(('STRING', 'CHAR')) or (c.type not in ('IGNORED', 'NL_CONT', 'NEWLINE') and not c.type.startswith('PP')
                                                                  and c.text.count('\n') > c.text.count('\\\n')):
                        # a literal (or another single token) that spans lines; a backslash-newline continuation is not one
                        suspects.add('line-break-in-literal')
            for i, c in enumerate(T):
                if c.type != 'NEWLINE':
                    continue
                # newline chunks inside / bordering a disabled region are not part of the census
                j = i + 1
                while j < len(T) and T[j].type == 'NEWLINE':
                    j += 1
                k = i - 1
                while k >= 0 and T[k].type == 'NEWLINE':
                    k -= 1
                if (j < len(T) and T[j].type == 'IGNORED') or (k >= 0 and T[k].type == 'IGNORED'):
                    continue
                counted += c.nl_count
            uncounted = max(0, len(lines_of(xl)) - 1 - counted)
        if f.out is None:
            if f.res.signal or f.res.cpu_timeout:
                return dict(skip='hard')
            return dict(skip='rejected')
        ref[nl] = f.out
        # purity
        rest = f.out.replace(TERM[nl], b'')
        if b'\r' in rest or b'\n' in rest:
            i = min(p for p in (rest.find(b'\r'), rest.find(b'\n')) if p >= 0)
            probs.append(('impure', 'newlines=%s: a foreign CR/LF remains after removing the terminator, near %r' % (nl, rest[max(0, i - 30):i + 10])))
    if ref['lf'] != xl:
        stats['nontrivial'] = 1
    # crlf/cr = substitution of lf
    for nl in ('crlf', 'cr'):
        if ref[nl] != ref['lf'].replace(b'\n', TERM[nl]):
            probs.append(('not-substitution', 'F under newlines=%s differs from F under lf with terminators replaced' % nl))
    # commutation with input conversion
    for style in ('crlf', 'cr', 'mix'):
        xs = conv(x, style, r)
        for nl in ('lf', 'crlf'):
            f = F(xs, nl)
            if f.out is None or f.out != ref[nl]:
                what = ('input converted to %s is rejected (%s) though the LF form is accepted' % (style, f.res.how()) if f.out is None
                        else 'format(convert_%s(x)) != format(x) under newlines=%s: %s' % (style, nl, first_diff(ref[nl], f.out)))
                if style in ('cr', 'mix') and suspects:
                    # root-cause key: lone CR line breaks inside the constructs listed (known-broken handling)
                    probs.append((('lone-cr-rejected|' if f.out is None else 'lone-cr|') + '+'.join(sorted(suspects)), what))
                    lone_cr_failed.add(style)
                else:
                    probs.append(('conv-differs|' + style, what))
                break
    # auto: strict majority of the input's terminators
    for style in ('lf', 'crlf', 'cr', 'mix'):
        if style in lone_cr_failed:
            continue        # the output is already known to differ for this conversion
        xs = conv(x, style, r)
        c = census(xs)
        order = sorted(zip(c, ('lf', 'crlf', 'cr')), reverse=True)
        if order[0][0] == 0:
            continue
        # uncounted breaks (in comments/strings/continuations) may shift the census: judge only majorities they cannot overturn
        if order[0][0] - uncounted <= order[1][0]:
            stats['auto_ties'] += 1
            continue
        f = F(xs, 'auto')
        if f.out is None:
            continue
        stats['auto_judged'] += 1
        want = order[0][1]
        if f.out != ref[want]:
            got = [nl for nl in ref if f.out == ref[nl]]
            if not got and suspects and style in ('cr', 'mix'):
                # the output is none of the three reference outputs: not a wrong choice of terminator but the known mishandling of a
                # lone CR inside a comment continuation / literal (same root-cause key as in the commutation clause)
                probs.append(('lone-cr|' + '+'.join(sorted(suspects)), 'newlines=auto on a %s input: output equals none of the lf/crlf/cr reference outputs' % style))
                continue
            probs.append(('auto-wrong|' + style, 'newlines=auto on a %s input (census lf/crlf/cr=%s) gives %s, majority is %s' % (style, c, got or 'something else', want)))
    return dict(skip=None, rel=rel, cfg=cfgname, probs=probs, stats=stats)


def first_diff(a, b):
    la, lb = SPLIT.split(a), SPLIT.split(b)
    for i, (p, q) in enumerate(zip(la, lb)):
        if p != q:
            return 'line %d: %r vs %r' % (i + 1, p[:70], q[:70])
    return 'line count %d vs %d' % (len(la), len(lb))


HOSTS = {
    'region-in-one-comment': ('C', b"""int a;
/* first line
 * *INDENT-OFF*
 *   keep    this
 *      table  as is
 * *INDENT-ON*
 * last line
 */
int b;
/* *INDENT-OFF* only
   to the end of this comment */
int   c  ;
/* *INDENT-ON* */
int d;
"""),
    'region-between-comments': ('C', b"""int a;
// *INDENT-OFF*
   int   b  ;

	char *s = "x";
/* *INDENT-ON* */
int e;
#pragma asm
  mov   ax , 1
#pragma endasm
int f;
"""),
    'breaks-inside-tokens': ('CPP', b"""#define SWAP(a, b) \\
   do { t = a; \\
        a = b; b = t; } while (0)
/* block
   comment
 */
const char *r = R"x(one
two
   three)x";
int g(int a) // trailing
{
   return a +
          1;
}
"""),
}


def host_or_corpus(rel):
    return HOSTS[rel[5:]][1] if rel.startswith('host:') else corpus.read(rel)


def check(ctx):
    build.binary('plain')
    quick = ctx.tier == 'quick'
    sr = rng(PROP, 'select')
    files = corpus.files()
    sel = sr.sample(files, 900) if quick else files
    tasks = []
    for i, (rel, lang) in enumerate(sel):
        cfgs = [sr.choice(sorted(BASE_CONFIGS))] if quick else sorted(BASE_CONFIGS)
        for c in cfgs:
            tasks.append((rel, lang, c, i, None))
    # in every run: the hand-written hosts and the corpus files with a disabled region, under every base config
    fixed = [(rel, lang) for rel, lang in files if b'INDENT-OFF' in corpus.read(rel) and (rel, lang) not in sel]
    for i, (rel, lang) in enumerate(fixed):
        for c in sorted(BASE_CONFIGS):
            tasks.append((rel, lang, c, 100000 + i, None))
    for i, (h, (hl, data)) in enumerate(sorted(HOSTS.items())):
        for c in sorted(BASE_CONFIGS):
            tasks.append(('host:' + h, hl, c, 200000 + i, data))
    ctx.count('fixed_family_inputs', len(fixed) + len(HOSTS))
    ctx.rule = ('per (corpus file, base config): F under lf/crlf/cr on the LF form (purity, substitution), F on the CRLF/CR/mixed conversions '
                '(commutation), newlines=auto on four conversions (majority); ~17 runs per case; non-trivial = distinct case accepted and changed')
    for r in pmap(_case, tasks):
        if r['skip']:
            ctx.count('skipped_' + r['skip'])
            continue
        ctx.evaluations += r['stats']['runs']
        ctx.count('cases')
        ctx.count('auto_judged', r['stats']['auto_judged'])
        ctx.count('auto_not_judged_no_clear_majority', r['stats']['auto_ties'])
        if r['stats']['nontrivial']:
            ctx.nt(r['rel'], r['cfg'])
        for kind, desc in r['probs']:
            ctx.violation(kind if kind.startswith(('lone-cr|', 'lone-cr-rejected|')) else '%s|%s|%s' % (kind, r['cfg'], r['rel']), 'tests/input/%s config %s: %s' % (r['rel'], r['cfg'], desc),
                          files={'input': host_or_corpus(r['rel']), 'config.cfg': BASE_CONFIGS[r['cfg']]})
    ctx.sample(dict(file=tasks[0][0], config=tasks[0][2], runs=['F_lf', 'F_crlf', 'F_cr', 'F_lf(crlf x)', 'F_lf(cr x)', 'F_lf(mix x)', 'F_auto(..)']))
    ctx.assumptions += ['auto is judged only when the majority survives subtracting the line breaks the tokenizer does not count (inside comments, literals, continuations; measured from the T dump)',
                        'UTF-16 inputs are left to C09']
    ctx.require('cases', 200)
    ctx.require('auto_judged', 300)
