"""C01 - formatting preserves program meaning: the formatted program compiles to the same object code as the input."""
import hashlib
import os
import re
import shutil
import subprocess

from .. import build, cfggen, fmt, layout, minimise, progen, registry
from ..common import case_dir, pmap, rng, fixed_rng, scratch_root

LEVEL = 'translation_validation'
PROP = 'C01'
EXCLUDED_CLASSES = {'debug', 'lexer_altering', 'file_inserting', 'encoding', 'error_policy'}
COMPILERS = {
    'C': ['gcc', '-x', 'c', '-std=gnu11', '-O1', '-g0', '-w', '-S', '-o', '-'],
    'CPP': ['g++', '-x', 'c++', '-std=gnu++17', '-O1', '-g0', '-w', '-S', '-o', '-'],
    'OC': ['clang', '-x', 'objective-c', '-fblocks', '-O1', '-g0', '-w', '-S', '-o', '-'],
}
ASM_DROP = re.compile(rb'^\s*\.(file|ident)\b.*$', re.M)


def header_dir():
    d = os.path.join(scratch_root(), 'c01-headers')
    if not os.path.isdir(d):
        tmp = d + '.%d' % os.getpid()
        os.makedirs(tmp, exist_ok=True)
        for n, b in progen.HEADERS.items():
            with open(os.path.join(tmp, n), 'wb') as f:
                f.write(b)
        try:
            os.rename(tmp, d)
        except OSError:
            shutil.rmtree(tmp, ignore_errors=True)
    return d


_obj_cache = {}


def compile_obj(src, lang):
    """-> (ok, object-code fingerprint or compiler message).  Same compiler, same flags, source on stdin (no file name in the result)."""
    key = (lang, hashlib.sha256(src).digest())
    if key in _obj_cache:
        return _obj_cache[key]
    if lang in COMPILERS:
        p = subprocess.run(COMPILERS[lang] + ['-I', header_dir(), '-'], input=src, stdout=subprocess.PIPE, stderr=subprocess.PIPE)
        if p.returncode != 0:
            res = (False, p.stderr.decode(errors='replace')[:600])
        else:
            res = (True, hashlib.sha256(ASM_DROP.sub(b'', p.stdout)).hexdigest())
    else:   # JAVA
        d = case_dir('javac')
        try:
            with open(os.path.join(d, 'Gen.java'), 'wb') as f:
                f.write(src)
            out = os.path.join(d, 'out')
            os.makedirs(out)
            p = subprocess.run(['javac', '-g:none', '-nowarn', '-proc:none', '-d', out, os.path.join(d, 'Gen.java')],
                               stdout=subprocess.PIPE, stderr=subprocess.PIPE)
            if p.returncode != 0:
                res = (False, p.stderr.decode(errors='replace').replace(d, '<DIR>')[:600])
            else:
                h = hashlib.sha256()
                for n in sorted(os.listdir(out)):
                    h.update(n.encode())
                    with open(os.path.join(out, n), 'rb') as f:
                        h.update(f.read())
                res = (True, h.hexdigest())
        finally:
            shutil.rmtree(d, ignore_errors=True)
    _obj_cache[key] = res
    return res


HOSTS = progen.mod_hosts()


def make_program(i):
    if i <= -10:
        return HOSTS[-10 - i][1], HOSTS[-10 - i][2]
    if i == -1:
        return 'C', progen.INACTIVE_UNBALANCED
    if i == -2:
        return 'C', progen.INACTIVE_GARBAGE
    fr = fixed_rng(PROP, 'prog%d' % i)
    lang = fr.choice(['C', 'C', 'C', 'CPP', 'CPP', 'JAVA', 'OC'])
    src = progen.program_text(lang, fr, nfuncs=(1, 3), depth_max=fr.choice([2, 3, 4]), stmts=(1, 3), budget=fr.choice([12, 25]), comments=True)
    if fr.random() < 0.6:
        try:
            lang_l = lang
            src2 = layout.hostile(src, lang_l, fr, blanks=(0, 2), p_lead=0.5, p_trail=0.4, p_blank=0.1, p_tab=0.05)
            src = src2
        except Exception:
            pass
    return lang, src


def _prepare(i):
    """Compile the program itself; a generated program the compiler rejects is discarded (and counted), never judged."""
    lang, src = make_program(i)
    ok, obj = compile_obj(src, lang)
    # harness self-check: a second layout of the same program must give the same object code
    fr = fixed_rng(PROP, 'relayout%d' % i)
    lang2, base = lang, None
    return (i, lang, ok, obj)


def judge(i, assign):
    lang, src = make_program(i)
    ok, obj = compile_obj(src, lang)
    if not ok:
        return 'discarded', None, None
    f = fmt.fmt(src, lang, cfggen.text(assign), name='Gen.java' if lang == 'JAVA' else None)
    if f.out is None:
        if f.res.cpu_timeout or f.res.wall_timeout:
            return 'timeout', None, src
        if f.res.status == 78:
            return 'config-refused', None, None      # EX_CONFIG: a blank-line count option exceeds nl_max (documented consistency rule, C16)
        return 'viol', ('rejects-valid-program', 'uncrustify ends with %s on a program the compiler accepts: %s' % (
            f.res.how(), f.res.stderr.decode(errors='replace')[-300:])), src
    if f.out == src:
        return 'same', None, None
    ok2, obj2 = compile_obj(f.out, lang)
    if not ok2:
        return 'viol', ('output-does-not-compile', 'the formatted program is rejected by the compiler: %s' % obj2[:400]), src
    if obj2 != obj:
        return 'viol', ('object-code-differs', 'the formatted program compiles to different object code'), src
    return 'equal', None, None


def _case(t):
    cid, i, assign = t
    st, v, src = judge(i, assign)
    lang = make_program(i)[0]
    if st != 'viol':
        return dict(cid=cid, status=st, viols=[], lang=lang)
    kind, detail = v
    if kind == 'rejects-valid-program' and assign:
        s0, v0, _ = judge(i, {})
        if s0 == 'viol' and v0[0] == kind:
            # refused under the built-in defaults already: one finding per program, not one per configuration
            return dict(cid=cid, status='viol', viols=[(kind, 'refused under the default configuration: ' + v0[1], {})], lang=lang, input=src,
                        locus='', output=b'', default_reject=True)
    small = assign
    if len(assign) > 1:
        def pred(sub):
            s2, v2, _ = judge(i, sub)
            return s2 == 'viol' and v2[0] == kind
        small = minimise.minimise_cfg(assign, pred, max_runs=40)
    # locus: first differing line between the input and the output produced by the minimal config (tokens only)
    f = fmt.fmt(src, lang, cfggen.text(small), name='Gen.java' if lang == 'JAVA' else None)
    locus = ''
    if f.out is not None:
        a = [re.sub(rb'\s+', b'', l) for l in src.split(b'\n') if l.strip()]
        b = [re.sub(rb'\s+', b'', l) for l in f.out.split(b'\n') if l.strip()]
        ja, jb = b''.join(a), b''.join(b)
        k = next((n for n, (p, q) in enumerate(zip(ja, jb)) if p != q), min(len(ja), len(jb)))
        locus = (ja[max(0, k - 12):k + 12] + b' => ' + jb[max(0, k - 12):k + 12]).decode('latin-1') if ja != jb else 'same-characters'
    return dict(cid=cid, status='viol', viols=[(kind, detail + '\n  near: ' + locus, small)], lang=lang, input=src, locus=locus,
                output=f.out if f.out is not None else b'')


def sweep_configs(opts):
    out = []
    for o in opts:
        if o.cls in EXCLUDED_CLASSES or o.type == 'string' or o.name in ('newlines',):
            continue
        for v in registry.values_for(o):
            if cfggen.is_slow(o.name, v) or str(v).lower() == str(o.default).lower():
                continue
            out.append((o.name, v))
    return out


def check(ctx):
    b = build.binary('plain')
    quick = ctx.tier == 'quick'
    sr = rng(PROP, 'select')
    opts = registry.options(b)
    sweep = sweep_configs(opts)
    ctx.extra['single_option_configs'] = len(sweep)
    pool = [o for o in opts if o.cls not in EXCLUDED_CLASSES and o.type != 'string' and o.name != 'newlines']
    PU = 20000
    ctx.extra['program_universe'] = PU
    nprog = 20 if quick else 120
    progs = sr.sample(range(PU), nprog)
    prep = {i: (lang, ok) for i, lang, ok, _ in pmap(_prepare, progs)}
    good = [i for i in progs if prep[i][1]]
    ctx.count('programs_generated', len(progs))
    ctx.count('programs_discarded_not_compilable', len(progs) - len(good))
    for i in good:
        ctx.count('programs_' + prep[i][0])
    tasks = []
    javas = [i for i in good if prep[i][0] == 'JAVA']
    natives = [i for i in good if prep[i][0] != 'JAVA']
    # single-option sweep: every non-excluded option at every non-default swept value meets k programs (covering design, rotated by the seed)
    k_nat = 2 if quick else 8
    for n, (name, val) in enumerate(sweep):
        fr = fixed_rng(PROP, 'cov:%s=%s:%d' % (name, val, 0))
        chosen = [natives[(n * 7 + j * 13 + sr.randrange(len(natives))) % len(natives)] for j in range(k_nat)] if natives else []
        if javas and (not quick or n % 6 == 0):
            chosen.append(javas[n % len(javas)])
        for i in set(chosen):
            tasks.append(('single:%s=%s:p%d' % (name, val, i), i, {name: val}))
    # joint draws over all non-excluded options
    for k in range(300 if quick else 4000):
        jr = rng(PROP, 'joint%d' % k)
        a = cfggen.joint(opts, jr, pool=pool)
        i = jr.choice(natives if (natives and jr.random() < 0.9) else good)
        tasks.append(('joint:%d:p%d' % (k, i), i, a))
    # hand-written hosts (every shape the code-modifying passes look for, in every nesting context): all code-modifying and
    # comment-rewriting options at every value (thorough: every swept option), and joint draws
    cls = {o.name: o.cls for o in opts}
    for h, (hname, hlang, htext) in enumerate(HOSTS):
        ok, why = compile_obj(htext, hlang)
        if not ok:
            raise RuntimeError('host %s does not compile: %s' % (hname, why[:300]))
        for name, val in sweep:
            if quick and cls[name] == 'whitespace':
                continue
            tasks.append(('host:%s:%s=%s:p%d' % (hname, name, val, -10 - h), -10 - h, {name: val}))
        # every pair of code-modifying (option, value)s: two passes that each look right can undo each other's work
        if hname in ('c-plain', 'cpp-plain') or not quick:
            cm = [(n, v) for n, v in sweep if cls[n] == 'code_modifying']
            for ai, (n1, v1) in enumerate(cm):
                for n2, v2 in cm[ai + 1:]:
                    if n1 != n2:
                        tasks.append(('hostpair:%s:%s=%s+%s=%s:p%d' % (hname, n1, v1, n2, v2, -10 - h), -10 - h, {n1: v1, n2: v2}))
        for k in range(10 if quick else 100):
            jr = fixed_rng(PROP, 'hostjoint:%s:%d' % (hname, k + (0 if quick else 10)))
            tasks.append(('hostjoint:%s:%d:p%d' % (hname, k, -10 - h), -10 - h, cfggen.joint(opts, jr, pool=pool)))
        ctx.count('hosts')
    # fixed case: unbalanced brackets inside an inactive '#if 0' branch (a valid program)
    tasks.append(('fixed:inactive-unbalanced:p-1', -1, {}))
    tasks.append(('fixed:inactive-garbage:p-2', -2, {}))
    ctx.rule = ('generated programs (C, C++17, Java, Objective-C; hand-written preamble with includes to sort, macros, #if 0 branches, enums with and without '
                'trailing comma, int keyword spellings, extra semicolons, empty returns, infinite loops, bit-fields, designated initialisers, '
                'templates incl. >>, lambdas, range-for, ctor initialisers; generated functions with every statement kind and pointer/unary chains '
                'next to binary operators such as a / *q1, a - -b, a & *&b; hostile layout) are compiled with gcc/g++/clang -O1 -S (source on stdin) or '
                'javac -g:none; each is formatted under every non-excluded option singly at every swept non-default value (covering design) and '
                'under joint draws; the output must be accepted by uncrustify (exit 0), compile, and give the same assembly (minus .file/.ident) '
                '/ class files.  Distinct outputs are compiled once.  non-trivial = case whose output differs from the input and was compiled')
    seen = set()
    for r in pmap(_case, tasks):
        ctx.evaluations += 1
        ctx.count('cases_' + r['cid'].split(':')[0])
        ctx.count('result_' + r['status'])
        if r['status'] == 'equal':
            ctx.nt(r['cid'])
        for kind, detail, small in r['viols']:
            optkey = ','.join('%s=%s' % kv for kv in sorted(small.items())) if len(small) <= 3 else '%d-options:%s' % (len(small), r['cid'])
            if r.get('default_reject'):
                optkey = 'default:p%s' % r['cid'].split(':p')[-1]
            key = '%s|%s|%s' % (kind, r['lang'], optkey or (r['cid'].split(':')[1] if r['cid'].startswith('fixed:') else r['cid']))
            if r['cid'].startswith('host'):
                key += '|' + r['cid'].split(':')[1]       # the nesting context is part of the root cause
            if key in seen:
                continue
            seen.add(key)
            ctx.nt(r['cid'])
            ctx.violation(key, '%s (case %s): %s\n  minimal options: %s' % (kind, r['cid'], detail, small),
                          files={'input': r['input'], 'output': r.get('output'), 'config.cfg': cfggen.text(small)})
    ctx.sample(dict(case=tasks[0][0], program=tasks[0][1]))
    ctx.sample(dict(case=tasks[-1][0], options=len(tasks[-1][2])))
    ctx.sample(dict(compilers='gcc/g++ -O1 -g0 -S on stdin; javac -g:none', programs=len(good)))
    ctx.assumptions += ['equivalence is object-code identity under one compiler, one optimisation level and one target',
                        'excluded configurations are the ones the statement excludes: debug_*, lexer-altering, file-inserting, encoding and string options, and the two error-policy options (pp_unbalanced_if_action, pp_warn_unbalanced_if) whose purpose is to end the run',
                        'option values known to make the pinned tree run for minutes (C06 findings: code_width < 12, cmt_width < 8, nl_remove_extra_newlines=2) are not drawn',
                        'Objective-C programs are a hand-written class/protocol/block preamble plus generated C functions, compiled with clang (GNU runtime, -fblocks)']
    ctx.require('result_equal', 1500 if quick else 20000)
    ctx.require('programs_C', 3)
    ctx.require('programs_CPP', 1)
