"""C07 - disabled regions are copied through untouched and are opaque to the rest of the file."""
import os
import re

from .. import build, cfggen, corpus, fmt, lex, minimise, registry
from ..common import pmap, rng, fixed_rng, sha

LEVEL = 'exploration'
PROP = 'C07'
SPLIT = re.compile(rb'\r\n|\r|\n')

# ---------------------------------------------------------------------------------------------
# region bodies: lists of lines (bytes, no terminators).  None of them contains an enable marker of any style used below.
BODIES = {
    'code-odd-layout': [b'      int   x=1 ;', b'if(a){b;}else{c;}', b'\tfor(;;){ }', b'   return  ( 0 ) ;'],
    'other-language': [b'def f(x):', b'    return x  +  1', b'SELECT  *  FROM t WHERE a=1;', b'  mov   eax , [ebx+4]   ; asm', b'%% yacc', b'<xml a="1">'],
    'unbalanced-open': [b'{{{ (( [', b'  if (x {', b'template<'],
    'unbalanced-close': [b'}}} )) ]', b'  } else', b'>>'],
    'tabs-and-trailing': [b'\tfoo\t \t', b'  bar  ', b'a\tb\t\tc\t', b'x;   \t'],
    'blank-runs': [b'', b'', b'a = 1;', b'', b'', b'', b'b = 2;', b'', b''],
    'blank-first': [b'', b'', b'', b'', b'first = 1;'],
    'blank-last': [b'last = 1;', b'', b'', b'', b''],
    'only-one-blank-then-code': [b'', b'z();'],
    'ws-only-lines': [b'   ', b'\t', b'q = 1;', b' \t \t', b'r = 2;', b'    '],
    'non-ascii': [b'na\xc3\xafve = "\xe2\x82\xac";', b'  \xe6\xbc\xa2\xe5\xad\x97  ', b'\xf0\x9f\x98\x80 {'],
    'marker-lookalikes': [b' *INDENT-ON', b' * INDENT-ON*', b'*INDENT_ON*', b'/* *INDENT-OFF* */', b'// *INDENT-OFF*', b'INDENT-O', b'# pragma endasn', b'#pragma  asm'],
    'comment-openers': [b'/* unterminated', b' still * / inside', b'// line \\', b'  next'],
    'string-openers': [b'"abc', b"'", b'R"x(', b'`'],
    'directives': [b'#if 0', b'#define X(a) \\', b'   a', b'#else', b'#endif', b'#endif', b'#include <x', b'#'],
    'long-line': [b'L' + b' x' * 2500 + b';'],
    'control-chars': [b'a\x0cb', b'\x0b', b'\x01\x02 \x7f', b'\\', b'\\ '],
    'semicolon-bait': [b'new x = 1', b'y = 2', b'foo()', b'return 1', b'}'],
    'brace-bait': [b'if (a)', b'   b = 1;', b'else', b'   c = 2;', b'while (x) y--;', b'return (1);', b'int short unsigned x;;;', b'enum { A, B };'],
    'include-bait': [b'#include "b.h"', b'#include "a.h"', b'#include "a.h"', b'import z;', b'import a;', b'using B;', b'using A;'],
    'continuations': [b'#define   SWAP(a,b)   \\', b'   do { t = a;   \\', b'\ta = b; b = t; } while (0)', b'x = 1 +   \\', b'    2;', b'// c   \\', b'   still'],
    'enable-text-in-literal': [b'\t  puts("see *INDENT-ON* below");', b'   s  =  "END-NOFMT" ;', b"  t  =  'fmt:on-here' ;", b'    u = "#pragma endasn";'],
    'enable-text-after-code': [b'   x  =  1 ;  /* *INDENT-ON* */', b'  /* foo */   y  =  2 ;  /* *INDENT-ON* */', b'\tz = 3; // *INDENT-ON*',
                               b'   w = 4; /* END-NOFMT */', b'  /* bar */ v = 5; // fmt:on-here'],
    'single': [b'x'],
    'single-space-line': [b' '],
}
INVALID_UTF8_BODY = [b'bad \xff\xfe bytes', b'  \xc3 ', b'\x80\x80']

STYLES = ['block', 'cpp', 'block-indented', 'custom', 'regex', 'pragma', 'block-trailing', 'doxy']


def markers(style, n):
    """-> (off line, on line, extra config text, sentinel-off, sentinel-on)."""
    so, se = b'vfsOFF%d' % n, b'vfsON%d' % n
    if style == 'block':
        return b'/* *INDENT-OFF* ' + so + b' */', b'/* *INDENT-ON* ' + se + b' */', '', so, se
    if style == 'doxy':
        return b'/** *INDENT-OFF* ' + so + b' */', b'/*! *INDENT-ON* ' + se + b' */', '', so, se
    if style == 'cpp':
        return b'// *INDENT-OFF* ' + so, b'// *INDENT-ON* ' + se, '', so, se
    if style == 'block-indented':
        return b'          /* *INDENT-OFF* ' + so + b' */', b'\t\t /* *INDENT-ON* ' + se + b' */', '', so, se
    if style == 'block-trailing':
        return b'/* *INDENT-OFF* ' + so + b' */', b'/* *INDENT-ON* ' + se + b' */   ', '', so, se
    if style == 'custom':
        return (b'// BEGIN-NOFMT ' + so, b'/* END-NOFMT ' + se + b' */',
                'disable_processing_cmt = "BEGIN-NOFMT"\nenable_processing_cmt = "END-NOFMT"\n', so, se)
    if style == 'regex':
        return (b'// fmt:off-here ' + so, b'// fmt:on-here ' + se,
                'disable_processing_cmt = "fmt:o(ff)+-here"\nenable_processing_cmt = "fmt:on+-h.re"\nprocessing_cmt_as_regex = true\n', so, se)
    if style == 'pragma':
        return b'#pragma asm', b'#pragma endasm', '', None, None
    raise ValueError(style)


PRAGMA_OFF = re.compile(rb'^[ \t]*#[ \t]*pragma[ \t]+asm[ \t]*$')
PRAGMA_ON = re.compile(rb'^[ \t]*#[ \t]*pragma[ \t]+endasm[ \t]*$')


def norm_lines(lines):
    return [b'' if not l.strip(b' \t') else l for l in lines]


MARK_TEXT = re.compile(rb'\*INDENT-O(FF|N)\*|(BEGIN|END)-NOFMT|fmt:o(ff|n)-here')


def _marker_line_ok(l, sent):
    """The marker comment sits on one line of its own (a reflowed / regrouped marker comment is not judged)."""
    t = l.strip(b' \t')
    if sent not in t or not MARK_TEXT.search(t):
        return False
    if t.startswith(b'//'):
        return True
    return t.startswith(b'/*') and t.endswith(b'*/') and t.count(b'*/') == 1


def split_output(out, so, se, terminated):
    """-> (before incl. the off line, region lines, after from the on line); None when the markers cannot be located once each;
    'reformatted' when a marker comment no longer occupies exactly one line (comment reflow/grouping options)."""
    ls = SPLIT.split(out)
    if so is None:
        a = [i for i, l in enumerate(ls) if PRAGMA_OFF.match(l)]
        b = [i for i, l in enumerate(ls) if PRAGMA_ON.match(l)]
    else:
        a = [i for i, l in enumerate(ls) if so in l]
        b = [i for i, l in enumerate(ls) if se in l]
    if len(a) != 1 or (terminated and len(b) != 1):
        return None
    if so is not None and (not _marker_line_ok(ls[a[0]], so) or (terminated and not _marker_line_ok(ls[b[0]], se))):
        return 'reformatted'
    if not terminated:
        return ls[:a[0] + 1], ls[a[0] + 1:], []
    if b[0] <= a[0]:
        return None
    return ls[:a[0] + 1], ls[a[0] + 1:b[0]], ls[b[0]:]


OPENERS = {'(': ')', '[': ']'}
NO_START = {'else', 'while', 'catch', 'finally', '{', ')', ']', ',', ';', '?', ':', '=', '.', '->', '&&', '||', '+', '-', '*', '/'}


def statement_points(data, lang):
    """Insertion points that are statement boundaries: the previous code token is ';', '{' or '}', no '(' or '[' is open, the previous
    line carries no trailing comment and the next code token does not continue a statement."""
    toks = [t for t in lex.lex(data, lang)]
    pts = set(insertion_points(data, lang))
    starts = lex.line_starts(data)
    import bisect
    depth = 0
    prev_code = None
    prev_any = None
    ok_before = {}     # line index -> bool (state at the first token of that line)
    first_tok = {}
    for t in toks:
        li = bisect.bisect_right(starts, t.start) - 1
        if li not in ok_before:
            ok_before[li] = (depth == 0 and prev_code is not None and prev_code.text in (';', '{', '}') and not prev_code.in_dir
                             and (prev_any is prev_code))
            first_tok[li] = t
        if t.kind == 'comment':
            prev_any = t
            continue
        if t.kind in ('dir', 'eod'):
            continue
        if t.kind == 'punct' and t.text in OPENERS:
            depth += 1
        elif t.kind == 'punct' and t.text in (')', ']'):
            depth = max(0, depth - 1)
        prev_code = t
        prev_any = t
    out = []
    for k in sorted(pts):
        if ok_before.get(k) and first_tok[k].kind != 'comment' and first_tok[k].text not in NO_START and not first_tok[k].in_dir:
            out.append(k)
    return out


def insertion_points(data, lang):
    """Line indices k such that a region may be inserted before physical line k: the line starts outside any comment, literal and
    directive, and the previous line does not end in a comment/literal or a backslash."""
    info = lex.line_info(data, lang)
    pts = []
    for k in range(1, len(info)):
        li, pv = info[k], info[k - 1]
        if li['inside'] or li['pp'] or pv['pp'] or pv['tail'] in ('str', 'chr'):
            continue
        prev = data[pv['start']:pv['end']]
        if prev.rstrip(b' \t').endswith(b'\\'):
            continue
        if pv['tail'] == 'comment' and not prev.lstrip().startswith((b'//', b'/*')) and b'//' not in prev:
            continue
        pts.append(k)
    return pts


def compose(host, k, style, body, n=0, terminated=True):
    """Insert the region before physical line k of host (LF host).  -> (bytes, off, on, cfg, so, se).
    terminated: True | False (region runs to the end of the file, which ends in a line terminator) | 'bare' (... and the last region
    line is the last byte of the file)."""
    hl = host.split(b'\n')
    off, on, cfg, so, se = markers(style, n)
    new = hl[:k] + [off] + list(body) + ([on] + hl[k:] if terminated is True else [])
    x = b'\n'.join(new)
    if terminated is False and not x.endswith(b'\n') and body and body[-1].strip(b' \t'):
        x += b'\n'
    return x, cfg, so, se


HOSTS = {
    'C': b'#include <stdio.h>\n\nstruct s { int a; char b; };\nenum e { A, B, C };\n\nstatic int f(int a, int b)\n{\n   int x = a;     // c1\n   int yy = b;    // c2\n\n   if (a > b) {\n      x++;\n   } else if (a) {\n      yy--;\n   }\n   for (x = 0; x < 3; x++)\n      yy += x;\n   while (x) { x--; }\n   do { x++; } while (x < 2);\n   switch (a) {\n   case 1:\n      x = 2;\n      break;\n   default:\n      break;\n   }\n   return (x + yy);\n}\n\nint g(void) { return 0; }\n',
    'CPP': b'#include <vector>\n\nnamespace n {\nclass K : public B\n{\npublic:\n   K() : a(1), b(2) {}\n   int  m(int q) const;\nprivate:\n   int a;   // first\n   long b;  // second\n};\n\ntemplate<typename T>\nT mx(T a, T b)\n{\n   auto l = [&](int z) { return z + 1; };\n   if (a < b)\n      return b;\n   for (auto &v : vec) { use(v); }\n   try { g(); } catch (...) { h(); }\n   return l(a);\n}\n}\n',
    'JAVA': b'package p;\n\nimport java.util.List;\nimport java.util.ArrayList;\n\npublic class A extends B {\n   private int x = 1;\n   @Override\n   public int f(int a) {\n      if (a > 0) {\n         return a;\n      }\n      for (int i = 0; i < 3; i++) { x += i; }\n      try { g(); } catch (Exception e) { h(); } finally { k(); }\n      return x;\n   }\n}\n',
    'CS': b'using System;\nusing System.Text;\n\nnamespace N {\n   public class A : B {\n      public int P { get; set; }\n      int F(int a) {\n         if (a > 0) { return a; }\n         foreach (var v in list) { Use(v); }\n         return P;\n      }\n   }\n}\n',
    'D': b'module m;\nimport std.stdio;\n\nclass A : B {\n   int x;\n   this() { x = 1; }\n   int f(int a) {\n      if (a > 0) { return a; }\n      foreach (i; 0 .. 3) { x += i; }\n      return x;\n   }\n}\n',
    'OC': b'#import <Foundation/Foundation.h>\n\n@interface A : NSObject\n- (int)f:(int)a with:(int)b;\n@end\n\n@implementation A\n- (int)f:(int)a with:(int)b\n{\n   if (a > b) {\n      return a;\n   }\n   [self g:a h:b];\n   return b;\n}\n@end\n',
    'PAWN': b'#include <core>\n\nnew g_x = 1\n\npublic f(a, b)\n{\n   new x = a\n   if (a > b) {\n      x++\n   }\n   for (new i = 0; i < 3; i++)\n      x += i\n   return x\n}\n\nstock h()\n{\n   return 0\n}\n',
    'VALA': b'using GLib;\n\npublic class A : Object {\n   private int x = 1;\n   public int f(int a) {\n      if (a > 0) { return a; }\n      foreach (var v in list) { use(v); }\n      return x;\n   }\n}\n',
    'ECMA': b'function f(a, b) {\n   var x = a;\n   if (a > b) {\n      x++;\n   }\n   for (var i = 0; i < 3; i++) { x += i; }\n   return x;\n}\nvar g = function () { return 0; };\n',
}

CURATED = {
    'default': {},
    'mod': {'mod_full_brace_if': 'add', 'mod_full_brace_for': 'add', 'mod_full_brace_while': 'add', 'mod_full_brace_do': 'add', 'mod_paren_on_return': 'remove',
            'mod_remove_extra_semicolon': 'true', 'mod_add_long_function_closebrace_comment': '1', 'mod_sort_include': 'true', 'mod_sort_import': 'true',
            'mod_sort_using': 'true', 'mod_remove_duplicate_include': 'true', 'mod_int_short': 'add', 'mod_int_unsigned': 'add', 'mod_enum_last_comma': 'add',
            'mod_pawn_semicolon': 'true', 'mod_remove_empty_return': 'true', 'mod_full_paren_if_bool': 'true'},
    'mod-remove': {'mod_full_brace_if': 'remove', 'mod_full_brace_for': 'remove', 'mod_full_brace_while': 'remove', 'mod_full_brace_do': 'remove',
                   'mod_paren_on_return': 'add', 'mod_int_short': 'remove', 'mod_enum_last_comma': 'remove', 'mod_full_brace_nl': '2', 'mod_pawn_semicolon': 'true'},
    'blank': {'nl_max': '1', 'eat_blanks_after_open_brace': 'true', 'eat_blanks_before_close_brace': 'true', 'nl_after_func_body': '2',
              'nl_start_of_file': 'remove', 'nl_end_of_file': 'force', 'nl_end_of_file_min': '1', 'nl_before_block_comment': '2', 'nl_before_cpp_comment': '2',
              'nl_before_c_comment': '2', 'nl_after_multiline_comment': 'true', 'nl_squeeze_ifdef': 'true'},
    'blank2': {'nl_max': '2', 'nl_before_if': 'force', 'nl_after_if': 'force', 'nl_before_for': 'force', 'nl_after_for': 'force', 'nl_after_semicolon': 'true',
               'nl_after_brace_open': 'true', 'nl_after_brace_close': 'true', 'nl_after_vbrace_open': 'true', 'nl_after_vbrace_close': 'true',
               'nl_after_brace_open_cmt': 'true', 'nl_before_return': 'true', 'nl_after_return': 'true', 'nl_remove_extra_newlines': '1'},
    'align': {'align_assign_span': '3', 'align_var_def_span': '3', 'align_right_cmt_span': '6', 'align_var_struct_span': '3', 'align_enum_equ_span': '3',
              'align_pp_define_span': '3', 'align_nl_cont': '1', 'align_func_params': 'true', 'align_with_tabs': 'true', 'indent_with_tabs': '2',
              'align_var_def_thresh': '12', 'align_on_tabstop': 'true'},
    'width': {'code_width': '40', 'cmt_width': '30', 'cmt_reflow_mode': '2', 'ls_func_split_full': 'true', 'ls_for_split_full': 'true', 'ls_code_width': 'true',
              'indent_columns': '2', 'indent_with_tabs': '0'},
    'cmt': {'cmt_cpp_to_c': 'true', 'cmt_star_cont': 'true', 'cmt_indent_multi': 'true', 'cmt_c_group': 'true', 'cmt_cpp_group': 'true', 'cmt_c_nl_start': 'true',
            'cmt_c_nl_end': 'true', 'cmt_convert_tab_to_spaces': 'true', 'cmt_trailing_single_line_c_to_cpp': 'true', 'cmt_sp_before_star_cont': '2',
            'string_replace_tab_chars': 'true'},
    'indent': {'indent_columns': '7', 'indent_with_tabs': '1', 'output_tab_size': '3', 'input_tab_size': '5', 'indent_braces': 'true', 'indent_class': 'true',
               'indent_namespace': 'true', 'indent_col1_comment': 'true', 'indent_single_newlines': 'true', 'indent_switch_case': '3', 'pp_indent': 'add',
               'pp_indent_count': '3', 'pp_indent_at_level': 'true', 'indent_cmt_with_tabs': 'true'},
    'lexer': {'disable_processing_nl_cont': 'true', 'pp_ignore_define_body': 'true', 'tok_split_gte': 'true', 'enable_digraphs': 'true',
              'use_form_feed_no_more_as_whitespace_character': 'true', 'align_nl_cont': '1', 'sp_before_nl_cont': 'force'},
    'sp-remove': None, 'sp-force': None, 'nl-remove': None, 'nl-add': None,
}


def curated(opts, name):
    a = CURATED[name]
    if a is not None:
        return dict(a)
    pref, val = name.split('-')
    return {o.name: val for o in opts if o.type == 'iarf' and o.name.startswith(pref + '_') and o.cls == 'whitespace'}


def classify_alteration(want, got, i):
    """Root-cause class of the first differing non-blank region line."""
    w = want[i] if i < len(want) else None
    g = got[i] if i < len(got) else None
    if w is None:
        return 'token-line-added' if g is not None and g.strip(b' \t') in (b'{', b'}', b'(', b')', b';', b',') else 'line-added'
    if g is None:
        return 'line-lost'
    if g.startswith(w) and g[len(w):].strip(b' \t') == b';':
        return 'semicolon-appended'
    LONE = (b'{', b'}', b'(', b')', b'int', b',', b'return', b'break;', b'else', b';')
    if g.startswith(w) and g[len(w):].strip(b' \t') in LONE:
        return 'token-appended'
    if g.endswith(w) and g[:-len(w)].strip(b' \t') in LONE:
        return 'token-prepended'
    if g.strip(b' \t') in LONE and i + 1 < len(got) and got[i + 1] == w:
        return 'token-line-added'
    if g.replace(b' ', b'') == w.replace(b' ', b'') and b'>' in w:
        return 'angle-split'
    sq = lambda b: re.sub(rb'[ \t]', b'', b)
    if len(sq(g)) > len(sq(w)) and sq(g).startswith(sq(w)):
        acc, j = b'', i
        while j < len(want) and len(sq(acc)) < len(sq(g)):
            acc += want[j]
            j += 1
        if j > i + 1 and sq(acc) == sq(g):
            return 'lines-joined'
    if g.strip(b' \t') == w.strip(b' \t'):
        return 'blanks-changed'
    if g.replace(b' ', b'').replace(b'\t', b'') == w.replace(b' ', b'').replace(b'\t', b''):
        return 'respaced'
    return 'text-changed'


def region_oracle(x_body, out, so, se, terminated):
    """-> ([(kind, detail)], parts)"""
    parts = split_output(out, so, se, terminated)
    if parts is None:
        return [('markers-lost', 'the marker lines cannot be located once each in the output')], None
    if parts == 'reformatted':
        return [], 'reformatted'
    before, region, after = parts
    want = norm_lines(x_body)
    got = norm_lines(region)
    if not terminated:
        # the file end: a final terminator may be added or absent - compare without trailing empty strings
        while want and want[-1] == b'':
            want = want[:-1]
        while got and got[-1] == b'':
            got = got[:-1]
    if want == got:
        return [], parts
    wn = [l for l in want if l]
    gn = [l for l in got if l]
    if wn != gn:
        i = next((k for k, (p, q) in enumerate(zip(wn, gn)) if p != q), min(len(wn), len(gn)))
        return [('region-line-altered:' + classify_alteration(wn, gn, i), 'non-blank region line %d: %r -> %r' % (
            i, wn[i][:80] if i < len(wn) else None, gn[i][:80] if i < len(gn) else None))], parts

    def lead(ls):
        n = 0
        for l in ls:
            if l:
                break
            n += 1
        return n
    lw, lg = lead(want), lead(got)
    tw, tg = lead(want[::-1]), lead(got[::-1])
    where = []
    if lw != lg:
        where.append('after-off-marker')
    if tw != tg and len(wn) > 0:
        where.append('before-on-marker' if terminated else 'before-eof')
    # interior: compare the blank runs between consecutive non-blank lines
    def runs(ls):
        out, n, started = [], 0, False
        for l in ls:
            if l:
                if started:
                    out.append(n)
                started, n = True, 0
            else:
                n += 1
        return out
    if runs(want) != runs(got):
        where.append('interior')
    if not where:
        where.append('edge')
    return [('region-blank-lines|' + '+'.join(where), 'blank lines of the region changed (%s): %d lines -> %d lines; leading %d->%d trailing %d->%d' % (
        '+'.join(where), len(want), len(got), lw, lg, tw, tg))], parts


def _case(t):
    cid, hostspec, lang, k, style, bodyname, alt_name, assign, terminated = t
    closed = terminated is True
    host = HOSTS[hostspec[1]] if hostspec[0] == 'host' else corpus.read(hostspec[1])
    host = SPLIT.sub(b'\n', host)
    body = INVALID_UTF8_BODY if bodyname == 'invalid-utf8' else BODIES[bodyname]
    if style == 'pragma':
        body = [l for l in body if b'endasm' not in l and b'pragma' not in l]
    if hostspec[0] == 'whole':
        # the whole corpus file is the region
        body = [l for l in host.split(b'\n')]
        if body and body[-1] == b'':
            body = body[:-1]
        host = b'int before_region;\n' + (b'int after_region;\n' if closed else b'')
        k = 1
    x, mcfg, so, se = compose(host, k, style, body, 0, terminated)
    K = mcfg + cfggen.text(assign)
    res = dict(cid=cid, status='ok', viols=[], nontrivial=False, runs=0, lines=0, opacity=False)

    def run(xx, a=None):
        res['runs'] += 1
        return fmt.fmt(xx, lang, mcfg + cfggen.text(assign if a is None else a))

    f = run(x)
    if f.out is None:
        res['status'] = 'hard' if (f.res.signal or f.res.cpu_timeout) else 'rejected'
        return res
    res['nontrivial'] = f.out != x
    res['lines'] = len(body)
    v, parts = region_oracle(body, f.out, so, se, closed)
    viols = list(v)
    if parts == 'reformatted':
        res['status'] = 'marker-reformatted'
        return res
    # opacity: same host, another body with the same number of lines (so that span-counting options see the same distances)
    if parts is not None and alt_name is not None:
        alt = BODIES[alt_name]
        if style == 'pragma':
            alt = [l for l in alt if b'endasm' not in l and b'pragma' not in l]
        alt = [alt[i % len(alt)] for i in range(len(body))]
        # keep the blank/non-blank pattern of the original so that only the text differs
        alt = [a if b.strip(b' \t') else b for a, b in zip([l if l.strip(b' \t') else b'zz' for l in alt], body)]
        if alt != list(body):
            x2, _, _, _ = compose(host, k, style, alt, 0, terminated)
            g = run(x2)
            if g.out is None:
                viols.append(('opacity-status', 'replacing the region text changes the exit status: %s' % g.res.how()))
            else:
                p2 = split_output(g.out, so, se, closed)
                if p2 == 'reformatted':
                    pass
                elif p2 is None:
                    viols.append(('opacity-markers', 'with another region text the marker lines cannot be located'))
                elif p2[0] != parts[0] or p2[2] != parts[2]:
                    side = 'before' if p2[0] != parts[0] else 'after'
                    a, b = (parts[0], p2[0]) if side == 'before' else (parts[2], p2[2])
                    i = next((j for j, (p, q) in enumerate(zip(a, b)) if p != q), min(len(a), len(b)))
                    cls = side
                    diff = [j for j in range(max(len(a), len(b))) if j >= len(a) or j >= len(b) or a[j] != b[j]]
                    if side == 'after' and len(a) == len(b) and max(diff) <= 1 and all(a[j].strip(b' \t') == b[j].strip(b' \t') for j in diff):
                        # only the indentation of the enable-marker line / the first line after it differs
                        cls = 'after-indent'
                    viols.append(('opacity|%s|%s' % (cls, style), 'output %s the region depends on the region text: line %d %r vs %r' % (
                        side, i, a[i][:80] if i < len(a) else None, b[i][:80] if i < len(b) else None)))
                else:
                    res['opacity'] = True
    out = []
    for kind, detail in viols:
        small = assign
        if len(assign) > 1:
            def pred(sub, kind=kind):
                ff = run(x, sub)
                if ff.out is None:
                    return False
                vv, _ = region_oracle(body, ff.out, so, se, closed)
                return any(kk == kind for kk, _ in vv)
            if kind.startswith('region'):
                small = minimise.minimise_cfg(assign, pred, max_runs=40)
        out.append((kind, detail, small))
    res['viols'] = out
    res['input'] = x if out else None
    res['cfg'] = mcfg
    return res


def check(ctx):
    b = build.binary('plain')
    quick = ctx.tier == 'quick'
    sr = rng(PROP, 'select')
    opts = registry.options(b)
    files = [(rel, lang) for rel, lang in corpus.files() if lang in HOSTS or lang == 'OC+']
    cur = {n: curated(opts, n) for n in CURATED}
    pool = [o for o in opts if (o.cls in ('whitespace', 'code_modifying', 'comment_string_rewriting') and o.type != 'string'
                                 and o.name not in ('newlines',))
            or o.name in ('disable_processing_nl_cont', 'pp_ignore_define_body', 'tok_split_gte', 'enable_digraphs',
                          'use_form_feed_no_more_as_whitespace_character')]
    bodynames = sorted(BODIES)
    tasks = []

    def lang_styles(lang):
        return [s for s in STYLES if s != 'pragma' or lang in ('C', 'CPP')]

    # fixed core: every hand-written host x every body x every curated config, at a seed-independent position and style
    for lang, host in sorted(HOSTS.items()):
        pts = insertion_points(host, lang)
        for bi, bn in enumerate(bodynames + ['invalid-utf8']):
            for ci, cn in enumerate(sorted(cur)):
                fr = fixed_rng(PROP, 'core:%s:%s:%s' % (lang, bn, cn))
                if quick and fr.random() > 0.5:
                    continue
                k = fr.choice(pts)
                st = fr.choice(lang_styles(lang))
                alt = fr.choice([n for n in bodynames if n != bn]) if bn != 'invalid-utf8' else None
                term = fr.random() > 0.15
                tasks.append(('core:%s:%s:%s' % (lang, bn, cn), ('host', lang), lang, k, st, bn, alt, cur[cn], term))
    # every insertion point of every host under the default, blank and mod configs (each statement position)
    for lang, host in sorted(HOSTS.items()):
        for k in insertion_points(host, lang):
            for cn in ('default', 'blank', 'mod'):
                fr = fixed_rng(PROP, 'pos:%s:%d:%s' % (lang, k, cn))
                if quick and fr.random() > 0.5:
                    continue
                bn = fr.choice(bodynames)
                tasks.append(('pos:%s:%d:%s' % (lang, k, cn), ('host', lang), lang, k, fr.choice(lang_styles(lang)), bn,
                              fr.choice([n for n in bodynames if n != bn]), cur[cn], True))
    # regions at the very start of the file (before line 0 of every host), every body
    for lang in sorted(HOSTS):
        for bn in bodynames:
            fr = fixed_rng(PROP, 'start:%s:%s' % (lang, bn))
            if quick and fr.random() > 0.3:
                continue
            cn = fr.choice(sorted(cur))
            tasks.append(('start:%s:%s:%s' % (lang, bn, cn), ('host', lang), lang, 0, fr.choice(lang_styles(lang)), bn,
                          fr.choice([n for n in bodynames if n != bn]), cur[cn], True))
    # regions that run to the end of the file: every host x every body, file ending with and without a line terminator
    eofcfg = {'default': {}, 'eof-remove': {'nl_end_of_file': 'remove'}, 'blank': cur['blank'], 'indent': cur['indent']}
    for lang, host in sorted(HOSTS.items()):
        pts = insertion_points(host, lang)
        for bn in bodynames:
            for mode in (False, 'bare'):
                for cn in sorted(eofcfg):
                    fr = fixed_rng(PROP, 'eof:%s:%s:%s:%s' % (lang, bn, mode, cn))
                    if quick and fr.random() > 0.4:
                        continue
                    tasks.append(('eof:%s:%s:%s:%s' % (lang, bn, mode, cn), ('host', lang), lang, fr.choice(pts), fr.choice(lang_styles(lang)), bn,
                                  fr.choice([n for n in bodynames if n != bn]), eofcfg[cn], mode))
    # corpus hosts: fixed universe of (file, position, style, body, config draw); the seed selects members
    U = 60000
    ctx.extra['corpus_universe'] = U
    for i in sr.sample(range(U), 6000 if quick else 40000):
        fr = fixed_rng(PROP, 'corp%d' % i)
        rel, lang = files[fr.randrange(len(files))]
        lang = 'OC' if lang == 'OC+' else lang
        kind = fr.random()
        if kind < 0.4:
            assign = cur[fr.choice(sorted(cur))]
        else:
            assign = cfggen.joint(opts, fr, pool=pool)
        bn = fr.choice(bodynames)
        tasks.append(('corp:%d:%s' % (i, rel), ('corpus', rel), lang, fr.random(), fr.choice(lang_styles(lang)), bn,
                      fr.choice([n for n in bodynames if n != bn]), assign, fr.random() > 0.1))
    # corpus files wrapped whole
    WU = [(rel, lang) for rel, lang in files]
    for rel, lang in (sr.sample(WU, 150) if quick else WU):
        lang = 'OC' if lang == 'OC+' else lang
        fr = fixed_rng(PROP, 'whole:' + rel)
        cn = fr.choice(sorted(cur))
        tasks.append(('whole:%s:%s' % (rel, cn), ('whole', rel), lang, 1, fr.choice(['block', 'cpp', 'custom']), 'single', None, cur[cn], fr.random() > 0.3))
    ctx.rule = ('case = host program (9 hand-written hosts, one per language, and corpus files) with a disabled region inserted before a line that starts '
                'outside comments/literals/directives; 8 marker styles (block, //, indented, doxygen, custom text, regex, #pragma asm, trailing blanks), '
                '%d hostile region bodies, terminated or running to end of file; configs: 13 curated (mod add/remove, blank-line, align, width, comment, '
                'indent, all sp_/nl_ remove/force) and joint draws over whitespace+mod+comment options.  Oracle (a): the lines between the sentinel-carrying '
                'marker lines of the output equal the inserted lines (whitespace-only lines compare as empty).  Oracle (b): the same case with another body of '
                'the same line count must give identical output outside the region.  non-trivial = accepted case whose output differs from the input' % (len(BODIES) + 1))
    prepared = []
    for t in tasks:
        if t[1][0] == 'corpus':
            prepared.append(t)
        else:
            prepared.append(t)
    results = pmap(_resolve_and_run, prepared)
    seen = set()
    for r in results:
        if r is None:
            ctx.count('skipped_host')
            continue
        ctx.evaluations += r['runs']
        ctx.count('cases_' + r['cid'].split(':')[0])
        ctx.count('status_' + r['status'])
        if r['status'] != 'ok':
            continue
        ctx.count('region_lines_compared', r['lines'])
        if r['opacity']:
            ctx.count('opacity_pairs_equal')
        if r['nontrivial']:
            ctx.nt(r['cid'])
        for kind, detail, small in r['viols']:
            lang = r['lang']
            optkey = ','.join(sorted(small)) if len(small) <= 3 else '%d-options' % len(small)
            key = '%s|%s|%s' % (kind, 'PAWN' if lang == 'PAWN' else 'any', optkey)
            if kind.startswith('opacity|after-indent'):
                key = kind
            elif kind.startswith('region-blank-lines'):
                pass          # root cause = where the blank lines sit; the option set may be large
            elif kind.startswith('opacity') or len(small) > 3:
                key = '%s|%s' % (kind, r['cid'])
            if kind.startswith('region-line-altered') and ':sql/' in r['cid']:
                key = '%s|embedded-sql' % kind
            if key in seen:
                continue
            seen.add(key)
            ctx.violation(key, '%s (case %s, style %s, body %s): %s\n  minimal options: %s' % (kind, r['cid'], r['style'], r['body'], detail, small),
                          files={'input': r['input'], 'config.cfg': r['cfg'] + cfggen.text(small)})
    ok = [r for r in results if r and r['status'] == 'ok']
    for r in ok[:3]:
        ctx.sample(dict(case=r['cid'], style=r['style'], body=r['body'], region_lines=r['lines'], opacity_checked=r['opacity']))
    ctx.assumptions += ['the region is the set of lines strictly between the line holding the disable marker and the line holding the enable marker (or end of file)',
                        'opacity is judged with replacement bodies of the same line count and blank-line pattern (span-counting options legitimately see distances)',
                        'marker lines are located by a sentinel word in the marker comment; #pragma asm/endasm lines by a pattern']
    ctx.require('status_ok', 800)
    ctx.require('opacity_pairs_equal', 400)
    ctx.require('region_lines_compared', 4000)


def _resolve_and_run(t):
    cid, hostspec, lang, k, style, bodyname, alt_name, assign, terminated = t
    if hostspec[0] == 'corpus':
        host = SPLIT.sub(b'\n', corpus.read(hostspec[1]))
        if b'INDENT-O' in host or b'asm' in host or b'\x00' in host or host[:2] in (b'\xff\xfe', b'\xfe\xff') or b'NOFMT' in host or b'fmt:o' in host:
            return None
        pts = statement_points(host, lang)
        if not pts:
            return None
        k = pts[int(k * len(pts)) % len(pts)]
    if hostspec[0] == 'whole':
        host = corpus.read(hostspec[1])
        if b'INDENT-O' in host or b'asm' in host or b'\x00' in host or host[:2] in (b'\xff\xfe', b'\xfe\xff') or host[:3] == b'\xef\xbb\xbf' or b'NOFMT' in host:
            return None
    r = _case((cid, hostspec, lang, k, style, bodyname, alt_name, assign, terminated))
    r['lang'], r['style'], r['body'] = lang, style, bodyname
    return r
