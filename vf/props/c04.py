"""C04 - code-modifying options change only the tokens they name."""
import re
from collections import Counter

from .. import build, cfggen, corpus, fmt, lex, minimise, progen, registry, tokoracle
from ..common import pmap, rng, fixed_rng

LEVEL = 'exploration'
PROP = 'C04'
NL = re.compile(rb'\r\n|\r|\n')

BRACES = {'{', '}'}
PARENS = {'(', ')'}
# option -> what it may add or remove (token texts), or a structural class
ALLOWED = {}
for n in ('mod_full_brace_do', 'mod_full_brace_for', 'mod_full_brace_function', 'mod_full_brace_if', 'mod_full_brace_while', 'mod_full_brace_using',
          'mod_case_brace'):
    ALLOWED[n] = ('tokens', BRACES)
for n in ('mod_paren_on_return', 'mod_paren_on_throw', 'mod_full_paren_if_bool', 'mod_full_paren_assign_bool', 'mod_full_paren_return_bool'):
    ALLOWED[n] = ('tokens', PARENS)
ALLOWED['mod_remove_extra_semicolon'] = ('tokens', {';'})
ALLOWED['mod_pawn_semicolon'] = ('tokens', {';'})
ALLOWED['mod_enum_last_comma'] = ('tokens', {','})
ALLOWED['mod_remove_empty_return'] = ('tokens', {'return', ';'})
ALLOWED['mod_infinite_loop'] = ('tokens', {'for', 'while', 'do', '(', ')', ';', '1', 'true', '0', 'false', '!'})
for n in ('mod_int_short', 'mod_short_int', 'mod_int_long', 'mod_long_int', 'mod_int_signed', 'mod_signed_int', 'mod_int_unsigned',
          'mod_unsigned_int', 'mod_int_prefer_int_on_left'):
    ALLOWED[n] = ('tokens', {'int'})
ALLOWED['mod_move_case_break'] = ('case-break', None)
ALLOWED['mod_move_case_return'] = ('permute', None)
ALLOWED['mod_sort_include'] = ('lines', 'include')
ALLOWED['mod_sort_import'] = ('lines', 'import')
ALLOWED['mod_sort_using'] = ('lines', 'using')
ALLOWED['mod_remove_duplicate_include'] = ('dup', 'include')
ALLOWED['mod_sort_oc_properties'] = ('permute', None)
# modifiers of the options above and comment adders: no token of their own
ALLOWED['mod_full_brace_if_chain'] = ('tokens', BRACES)
ALLOWED['mod_full_brace_if_chain_only'] = ('tokens', BRACES)
NO_TOKENS = {'mod_full_brace_nl', 'mod_full_brace_nl_block_rem_mlcond',
             'mod_add_force_c_closebrace_comment', 'mod_add_long_function_closebrace_comment', 'mod_add_long_namespace_closebrace_comment',
             'mod_add_long_class_closebrace_comment', 'mod_add_long_switch_closebrace_comment', 'mod_add_long_ifdef_endif_comment',
             'mod_add_long_ifdef_else_comment', 'mod_sort_case_sensitive', 'mod_sort_incl_import_prioritize_filename',
             'mod_sort_incl_import_prioritize_extensionless', 'mod_sort_incl_import_prioritize_angle_over_quotes',
             'mod_sort_incl_import_ignore_extension', 'mod_sort_incl_import_grouping_enabled'}


def enabled(assign, by_name):
    """mod_ options whose value differs from the default (i.e. switched on)."""
    out = []
    for k, v in assign.items():
        if k.startswith('mod_') and k in by_name and str(v).lower() != str(by_name[k].default).lower():
            if by_name[k].type == 'iarf' and v == 'ignore':
                continue
            out.append(k)
    return out


def line_groups(stream, what):
    """Split a token stream into (residual, groups): groups are whole include directives / import / using statements."""
    res, groups = [], []
    i, n = 0, len(stream)
    while i < n:
        k, t = stream[i]
        if what == 'include' and k == 'dir':
            j = i
            while j < n and stream[j][0] != 'eod':
                j += 1
            grp = tuple(tt for _, tt in stream[i:j + 1])
            if len(grp) > 2 and grp[1] == '#' and grp[2] in ('include', 'import'):
                groups.append(grp)
                i = j + 1
                continue
        if what in ('import', 'using') and (t == what or (what == 'using' and t == 'alias')) and (i == 0 or stream[i - 1][1] in (';', '}', '{', '') or stream[i - 1][0] == 'eod'):
            j = i
            while j < n and stream[j][1] != ';' and j - i < 40:
                j += 1
            if j < n and stream[j][1] == ';':
                groups.append(tuple(tt for _, tt in stream[i:j + 1]))
                i = j + 1
                continue
        res.append((k, t))
        i += 1
    return res, groups


def balanced(texts):
    st = []
    pair = {')': '(', ']': '[', '}': '{'}
    for t in texts:
        if t in ('(', '[', '{'):
            st.append(t)
        elif t in pair:
            if not st or st[-1] != pair[t]:
                return False
            st.pop()
    return not st


def judge(x, out, lang, mods):
    """-> [(kind, detail)] ; mods: names of the enabled mod_ options."""
    v = []
    sx = tokoracle.norm_nl(lex.code_stream(lex.lex(x, lang)))
    so = tokoracle.norm_nl(lex.code_stream(lex.lex(out, lang)))
    allowed = set()
    permute = False
    for m in mods:
        a = ALLOWED.get(m)
        if a is None:
            continue
        if a[0] == 'tokens':
            allowed |= a[1]
        elif a[0] == 'case-break':
            # the documented move: 'break ;' from the end of a case block to behind its closing brace.  Both streams are brought to
            # the moved form; any other displacement of 'break' then shows in the comparison
            def norm(st):
                st = list(st)
                changed = True
                while changed:
                    changed = False
                    for q in range(len(st) - 2):
                        if st[q][1] == 'break' and st[q + 1][1] == ';' and st[q + 2][1] == '}':
                            st[q], st[q + 1], st[q + 2] = st[q + 2], st[q], st[q + 1]
                            changed = True
                return st
            sx, so = norm(sx), norm(so)
        elif a[0] == 'permute':
            permute = True
        elif a[0] in ('lines', 'dup'):
            rx, gx = line_groups(sx, a[1])
            ro, go = line_groups(so, a[1])
            cx, co = Counter(gx), Counter(go)
            if a[0] == 'lines':
                other_dup = 'mod_remove_duplicate_include' in mods and a[1] == 'include'
                if (set(cx) != set(co)) if other_dup else (cx != co):
                    diff = list((cx - co).items())[:2] + list((co - cx).items())[:2]
                    v.append(('lines-multiset|' + m, 'the set of %s lines changed: %s' % (a[1], diff)))
            else:
                if set(cx) != set(co) or any(co[g] > cx[g] for g in co):
                    v.append(('dup-include', 'include lines lost or invented: %s' % (list((cx - co).items())[:2] + list((co - cx).items())[:2])))
                elif 'mod_sort_include' not in mods:
                    # without sorting, the first occurrence of every include stays in place: order of first occurrences unchanged
                    def firsts(gs):
                        seen, o = set(), []
                        for g in gs:
                            if g not in seen:
                                seen.add(g)
                                o.append(g)
                        return o
                    if firsts(gx) != firsts(go):
                        v.append(('dup-include-order', 'order of the remaining include lines changed'))
            sx, so = rx, ro
    tx = [t for _, t in sx]
    to = [t for _, t in so]
    kx = [(k if k in ('dir', 'eod') else 't', t) for k, t in sx]
    ko = [(k if k in ('dir', 'eod') else 't', t) for k, t in so]
    if permute:
        kx = [kt for kt in kx if kt[1] not in allowed or kt[0] != 't']
        ko = [kt for kt in ko if kt[1] not in allowed or kt[0] != 't']
        if Counter(kx) != Counter(ko) and not (lang not in lex.PRECISE and sorted(''.join(t for _, t in kx)) == sorted(''.join(t for _, t in ko))):
            d = list((Counter(kx) - Counter(ko)).items())[:3] + list((Counter(ko) - Counter(kx)).items())[:3]
            v.append(('multiset', 'token multiset changed under a reordering option: %s' % d))
        return v
    rx = [kt for kt in kx if kt[1] not in allowed or kt[0] != 't']
    ro = [kt for kt in ko if kt[1] not in allowed or kt[0] != 't']
    if rx != ro and lang not in lex.PRECISE and ''.join(t for _, t in rx) == ''.join(t for _, t in ro) and \
            [k for k, _ in rx if k != 't'] == [k for k, _ in ro if k != 't']:
        rx = ro           # generic lexer tables: only token boundaries differ ('<>' vs '<' '>'), the characters and directives agree
    if rx != ro:
        i, wa, wb = tokoracle.first_diff(rx, ro)
        kind = 'foreign-token' if mods else 'token-changed-without-mod'
        # root-cause locus: the first token that differs, generalised
        ta = rx[i][1] if i < len(rx) else '<end>'
        tb = ro[i][1] if i < len(ro) else '<end>'
        v.append(('%s|%s=>%s' % (kind, tokoracle.gen(ta) if ta else 'DIR', tokoracle.gen(tb) if tb else 'DIR'),
                  'tokens other than %s changed: %s vs %s' % (sorted(allowed) or 'none', [t for _, t in wa], [t for _, t in wb])))
        return v
    # pairs: braces and parentheses are added / removed in pairs, and nesting stays balanced when it was
    cx, co = Counter(tx), Counter(to)
    for a, b in (('{', '}'), ('(', ')'), ('[', ']')):
        if (co[a] - cx[a]) != (co[b] - cx[b]):
            v.append(('unpaired|' + a + b, '%d "%s" but %d "%s" added' % (co[a] - cx[a], a, co[b] - cx[b], b)))
    if balanced(tx) and not balanced(to):
        v.append(('unbalanced', 'bracket nesting of the input is balanced, that of the output is not'))
    return v


SWITCH_SHAPES = b'''
static int sw(int a, int v)
{
   switch (a) {
   case 0: { v = neg(v); }
      break;
   case 1: { v++; break; }
   case 2:
      {
         v--;
      }
      break;
   case 3: { v = 1;
      } break;
   case 4: v += 2; break;
   case 5:
   case 6: { if (v) { v = 0; } }
      break;
   case 7: { switch (v) { case 1: { v = 3; } break; default: { v = 4; break; } } }
      break;
   default: { break; }
   }
   if (a) v++; else { v--; }
   if (a > 1) { if (v) v = 2; } else v = 3;
   if (a > 2) { v = 5; } else if (a > 3) v = 6; else { v = 7; }
   while (a-- > 0) { v++; }
   for (;;) { break; }
   do v++; while (v < 3);
   return (v);;
}
'''
OC_PROPERTIES = b'''@class NSString;
@protocol Dlg;
@interface Cell : Root
@property (nonatomic, unsafe_unretained) id delegate;
@property (nonatomic, copy, readonly) NSString *title;
@property (nonatomic, assign, getter=isOn) int on;
@property (atomic, strong, readwrite, nullable) id strongOne;
@property (weak, nonatomic, null_resettable) id weakOne;
@property (setter=setThing:, getter=thing, retain, nonnull) id thing;
@property (class, readonly, nonatomic) int counter;
@property (readonly) int bare;
@property (nonatomic, null_unspecified, copy) id<Dlg> dlg;
@property int none;
@end
'''
HOSTS = {
    'C': progen.C_PREAMBLE + SWITCH_SHAPES,
    'OC': progen.OC_PREAMBLE + OC_PROPERTIES + b'static int negoc(int v) { return -v; }\n' + SWITCH_SHAPES.replace(b'neg(', b'negoc('),
    'CPP': progen.CPP_PREAMBLE + b'static int neg(int v) { return -v; }\n' + SWITCH_SHAPES,
    'JAVA': b'''import java.util.Map;
import java.util.List;
import java.util.ArrayList;
class H {
   static int neg(int v) { return -v; }
   static int sw(int a, int v)
   {
      switch (a) {
      case 0: { v = neg(v); }
         break;
      case 1: { v++; break; }
      case 2:
         {
            v--;
         }
         break;
      case 4: v += 2; break;
      default: { break; }
      }
      if (a > 0) v++; else { v--; }
      if (a > 1) { if (v > 0) v = 2; } else v = 3;
      while (a-- > 0) { v++; }
      for (;;) { break; }
      do v++; while (v < 3);
      return (v);
   }
}
''',
    'CS': b'''using System.Text;
using System;
class H {
   static int Sw(int a, int v)
   {
      switch (a) {
      case 0: { v = -v; }
         break;
      case 1: { v++; break; }
      default: { break; }
      }
      if (a > 0) v++; else { v--; }
      using (var x = F()) { v++; }
      while (a-- > 0) { v++; }
      return (v);
   }
}
''',
}


def load_input(spec):
    if spec[0] == 'corpus':
        return corpus.read(spec[1])
    if spec[0] == 'host':
        return HOSTS[spec[1]]
    if spec[0] == 'gen':
        fr = fixed_rng(PROP, 'prog%d' % spec[1])
        lang = spec[2]
        P = progen.gen(lang, fr, nfuncs=(1, 3), depth_max=fr.choice([3, 5]), stmts=(1, 4), comments=True)
        src = P.render(fr, style='mixed', indent=3)[0]
        # some conditions span several lines (the brace options look at that)
        out = []
        for line in src.split(b'\n'):
            t = line.lstrip()
            if t.startswith((b'if (', b'else if (', b'while (', b'for (')) and fr.random() < 0.5:
                for op in (b' && ', b' || ', b' == ', b' < ', b'; '):
                    k = line.find(op)
                    if k > 0:
                        line = line[:k + len(op) - 1] + b'\n        ' + line[k + len(op):]
                        break
            out.append(line)
        return b'\n'.join(out)
    return spec[1]


def _case(t):
    cid, spec, lang, assign = t
    x = load_input(spec)
    if b'\x00' in x or x[:2] in (b'\xff\xfe', b'\xfe\xff') or b'INDENT-O' in x or b'asm' in x:
        return dict(cid=cid, status='skipped')
    x = NL.sub(b'\n', x)
    tx = lex.lex(x, lang)
    if not tokoracle.well_lexed(tx):
        return dict(cid=cid, status='input-not-well-lexed')
    if any(t.kind == 'comment' and t.text.startswith('//') and ('\n' in t.text or '\r' in t.text) for t in tx):
        # a '//' comment spliced over a line break by a trailing backslash: uncrustify and the language disagree on where it ends (C03-001)
        return dict(cid=cid, status='skipped-spliced-comment')
    b = build.binary('plain')
    by_name = registry.by_name(b)
    f = fmt.fmt(x, lang, cfggen.text(assign))
    if f.out is None:
        return dict(cid=cid, status='hard' if (f.res.signal or f.res.cpu_timeout) else 'rejected')
    mods = enabled(assign, by_name)
    v = judge(x, f.out, lang, mods)
    tok_changed = lex.code_stream(tx) != lex.code_stream(lex.lex(f.out, lang))
    out = []
    if v and spec[0] == 'corpus':
        # a file whose token stream already changes under the built-in defaults (a C02 finding) cannot be used to judge mod_ options
        f0 = fmt.fmt(x, lang, '')
        if f0.out is not None and judge(x, f0.out, lang, []):
            return dict(cid=cid, status='ok', viols=[('baseline-differs', 'the token stream of this file changes under the default configuration '
                                                      'already (see C02): ' + v[0][1][:200], {})], tokens=len(tx), tok_changed=True, nmods=len(mods),
                        nontrivial=True, input=x, lang=lang)
    for kind, detail in v:
        small = assign
        if len(assign) > 1:
            def pred(sub, kind=kind):
                ff = fmt.fmt(x, lang, cfggen.text(sub))
                if ff.out is None:
                    return False
                return any(k.split('|')[0] == kind.split('|')[0] for k, _ in judge(x, ff.out, lang, enabled(sub, by_name)))
            small = minimise.minimise_cfg(assign, pred, max_runs=50)
        out.append((kind, detail, small))
    return dict(cid=cid, status='ok', viols=out, tokens=len(tx), tok_changed=tok_changed, nmods=len(mods), nontrivial=f.out != x,
                input=x if out else None, lang=lang)


def mod_values(o):
    if o.type == 'iarf':
        return ['add', 'remove', 'force']
    if o.type == 'bool':
        return ['true']
    if o.name == 'mod_infinite_loop':
        return ['1', '2', '3', '4', '5', '6']
    if o.name == 'mod_full_brace_if_chain':
        return ['1', '2', '3']
    if o.type == 'unsigned':
        return ['1', '2', '5']
    return ['1', '-1', '5']


def check(ctx):
    b = build.binary('plain')
    quick = ctx.tier == 'quick'
    sr = rng(PROP, 'select')
    opts = registry.options(b)
    mods = [o for o in opts if o.name.startswith('mod_')]
    unknown = [o.name for o in mods if o.name not in ALLOWED and o.name not in NO_TOKENS and not o.name.startswith('mod_sort_oc_property_')]
    ctx.extra['mod_options'] = len(mods)
    ctx.extra['mod_options_without_table_entry'] = unknown      # judged with an empty allowance: any token change is reported
    files = corpus.files()
    ws = cfggen.ws_options(opts)
    tasks = []
    per = 8 if quick else 20
    gen_per = 5 if quick else 12
    # every mod_ option singly at every value (exhaustive over options x values) over corpus files of all languages and generated programs
    for o in mods:
        for val in mod_values(o):
            fr = fixed_rng(PROP, 'single:%s=%s' % (o.name, val))
            a = {o.name: val}
            if o.name in NO_TOKENS or o.name.startswith('mod_sort_oc_property_'):
                # a modifier is exercised together with the option it modifies
                a.update({'mod_full_brace_if': 'add', 'mod_full_brace_for': 'remove', 'mod_sort_include': 'true', 'mod_sort_oc_properties': 'true'})
            for rel, lang in sr.sample(files, per):
                tasks.append(('single:%s=%s:%s' % (o.name, val, rel), ('corpus', rel), lang, a))
            for hl in sorted(HOSTS):
                tasks.append(('single:%s=%s:host-%s' % (o.name, val, hl), ('host', hl), hl, a))
            for k in range(gen_per):
                gi = fr.randrange(100000)
                lang = fr.choice(['C', 'CPP', 'JAVA'])
                tasks.append(('single:%s=%s:gen%d' % (o.name, val, gi), ('gen', gi, lang), lang, a))
    # every pair of (option, value) within the brace family (the options that decide about '{' '}' look at each other's results)
    fam = [o for o in mods if o.name.startswith(('mod_full_brace', 'mod_case_brace'))]
    famv = [(o.name, v) for o in fam for v in mod_values(o)]
    ctx.extra['brace_family_pairs'] = len(famv) * (len(famv) - 1) // 2
    pairs = [(a, b) for i, a in enumerate(famv) for b in famv[i + 1:] if a[0] != b[0]]
    for a, b in pairs:
        fr = fixed_rng(PROP, 'pair:%s=%s:%s=%s' % (a + b))
        for k in range(10 if quick else 30):
            gi = fr.randrange(100000)
            lang = fr.choice(['C', 'CPP', 'JAVA'])
            tasks.append(('pair:%s=%s+%s=%s:gen%d' % (a + b + (gi,)), ('gen', gi, lang), lang, {a[0]: a[1], b[0]: b[1]}))
        for hl in ('C', 'JAVA'):
            tasks.append(('pair:%s=%s+%s=%s:host-%s' % (a + b + (hl,)), ('host', hl), hl, {a[0]: a[1], b[0]: b[1]}))
    # seeded subsets of mod_ options with random whitespace/comment options
    U = 60000
    ctx.extra['joint_universe'] = U
    for i in sr.sample(range(U), 8000 if quick else U):
        fr = fixed_rng(PROP, 'j%d' % i)
        a = {}
        for o in fr.sample(mods, fr.choice([0, 1, 2, 3, 5, 10])):
            a[o.name] = fr.choice(mod_values(o) + (['ignore'] if o.type == 'iarf' else []))
        for o in fr.sample(ws, fr.choice([0, 2, 6, 15])):
            vv = cfggen.random_value(o, fr)
            if not cfggen.is_slow(o.name, vv):
                a[o.name] = vv
        if fr.random() < 0.3:
            rel, lang = None, fr.choice(['C', 'CPP', 'JAVA'])
            tasks.append(('joint:%d:gen' % i, ('gen', fr.randrange(100000), lang), lang, a))
        else:
            rel, lang = files[fr.randrange(len(files))]
            tasks.append(('joint:%d:%s' % (i, rel), ('corpus', rel), lang, a))
    ctx.rule = ('case = corpus file (all languages) or generated C/C++/Java program formatted with a set M of enabled mod_ options (every option singly '
                'at every value: exhaustive over options x values; seeded subsets of 0..10 options) plus random whitespace options.  Oracle on the token '
                'streams of the independent lexer: after removing the token texts M is documented to add/remove (braces, parentheses, ";", "int", ",", '
                '"return ;", loop-header tokens, whole include/import/using lines as a multiset) the two streams must be identical (every other token '
                'kept, in order, directive brackets included); braces/parentheses are added or removed in pairs and balanced nesting stays balanced; '
                'with M empty the streams are identical.  non-trivial = accepted case whose output differs from the input')
    seen = set()
    for r in pmap(_case, tasks):
        ctx.evaluations += 1
        ctx.count('cases_' + r['cid'].split(':')[0])
        ctx.count('status_' + r['status'])
        if r['status'] != 'ok':
            continue
        ctx.count('tokens_compared', r['tokens'])
        if r['tok_changed']:
            ctx.count('cases_with_token_edits')
        if r['nontrivial']:
            ctx.nt(r['cid'])
        for kind, detail, small in r['viols']:
            if kind == 'baseline-differs':
                key = 'baseline-differs|' + r['cid'].split(':')[-1]
                if key not in seen:
                    seen.add(key)
                    ctx.violation(key, '%s (case %s): %s' % (kind, r['cid'], detail), files={'input': r['input']})
                continue
            ms = {k: vv for k, vv in small.items() if k.startswith('mod_')}
            optkey = ','.join('%s=%s' % kv for kv in sorted(ms.items())) if len(ms) <= 3 else '%d-mod-options' % len(ms)
            rest = len(small) - len(ms)
            src = r['cid'].split(':')[-1]
            wsn = sorted(k for k in small if not k.startswith('mod_'))
            wskey = ('+' + ','.join(wsn)) if 0 < len(wsn) <= 2 else ('+%dws' % len(wsn) if wsn else '')
            key = '%s|%s|%s' % (kind, optkey or 'no-mod-option', (src if not small and not src.startswith('gen') else '') + wskey)
            if key in seen:
                continue
            seen.add(key)
            ctx.violation(key, '%s (case %s, lang %s): %s\n  minimal options: %s' % (kind, r['cid'], r['lang'], detail, small),
                          files={'input': r['input'], 'config.cfg': cfggen.text(small)})
    ctx.assumptions += ['token boundaries are those of the independent lexer (precise for C, C++, ObjC, Java, C#; generic for D, Vala, Pawn, ECMAScript)',
                        'for mod_move_case_return and mod_sort_oc_properties (which move whole statements / attributes) only the token multiset is compared',
                        'whether an added or removed brace/parenthesis pair keeps the meaning is the subject of C01; here pairs and balance are checked']
    ctx.require('status_ok', 6000)
    ctx.require('cases_with_token_edits', 800)
