"""C06 - any input terminates cleanly: formatted, or refused with a diagnostic (ASan+UBSan)."""
import os
import re

from .. import build, corpus, mutate, run
from ..common import case_dir, fixed_rng, pmap, rng, sha
import shutil

LEVEL = 'exploration'
PROP = 'C06'

CONFIGS = {
    'default': '',
    'k1': 'indent_columns=3\nindent_with_tabs=0\nnl_max=2\ncode_width=60\nsp_arith=force\nnl_fdef_brace=force\nnl_if_brace=add\nalign_assign_span=2\nalign_var_def_span=2\n',
    'k2': 'indent_with_tabs=2\nmod_full_brace_if=add\nmod_full_brace_for=add\nmod_full_brace_while=remove\nmod_paren_on_return=add\nmod_remove_extra_semicolon=true\nnl_after_semicolon=true\nnl_after_brace_open=true\nalign_right_cmt_span=3\ncmt_width=40\ncmt_reflow_mode=2\n',
    'k3': 'nl_collapse_empty_body=true\nnl_func_leave_one_liners=true\nnl_if_leave_one_liners=true\nmod_add_long_ifdef_endif_comment=1\nmod_add_long_function_closebrace_comment=1\nmod_sort_include=true\nmod_sort_using=true\nmod_sort_import=true\nalign_func_params=true\nalign_typedef_span=3\nindent_class=true\nindent_namespace=true\ncode_width=40\nls_for_split_full=true\nls_func_split_full=true\n',
    'k4': 'newlines=crlf\nutf8_bom=add\nindent_columns=8\nindent_switch_case=4\nnl_start_of_file=remove\nnl_end_of_file=force\nnl_end_of_file_min=2\neat_blanks_after_open_brace=true\neat_blanks_before_close_brace=true\nsp_before_semi=remove\nsp_inside_paren=force\nsp_inside_braces=force\npp_indent=add\npp_space_after=add\nmod_full_paren_if_bool=true\nmod_remove_empty_return=true\n',
}
CFG_NAMES = sorted(CONFIGS)

_cfg_paths = {}


_joint_cache = {}


def cfg_text(name):
    """Curated config, 'opt:<name>=<value>' for a single-option config, or 'joint:<i>' for member i of the joint-draw universe."""
    if name.startswith('opt:'):
        return name[4:].replace('=', ' = ', 1) + '\n'
    if name.startswith('joint:'):
        if name not in _joint_cache:
            from .. import registry, cfggen, build as _b
            opts = registry.options(_b.binary('asan'))
            pool = [o for o in opts if o.cls not in ('debug', 'file_inserting') and o.type != 'string']
            _joint_cache[name] = cfggen.text(cfggen.joint(opts, fixed_rng(PROP, name), pool=pool))
        return _joint_cache[name]
    return CONFIGS[name]


def _cfg(name, root):
    p = os.path.join(root, 'cfg-%s.cfg' % sha(name))
    if not os.path.exists(p):
        tmp = p + '.%d' % os.getpid()
        with open(tmp, 'w') as f:
            f.write(cfg_text(name))
        os.replace(tmp, p)
    return p


# minimal malformed file endings by construct, and the option families that process that construct
TAIL_FAMILIES = {
    'comment': ([b'/*', b'/* x', b'/**/', b'//', b'// x \\', b'/+', b'/', b'/*/', b'*/', b'/* a\n * b', b'int a; /*', b'int a; //', b'/* a */\n/*x', b'/* a */\n/*', b'// a\n//', b'/* a */\n/* b */\n/*/'],
                ('cmt_', 'sp_cmt', 'sp_before_tr', 'sp_num_before_tr', 'nl_before_block_comment', 'nl_before_c_comment', 'nl_before_cpp_comment',
                 'nl_after_multiline_comment', 'mod_add_', 'indent_cmt', 'indent_col1_comment', 'indent_relative_single', 'align_right_cmt', 'sp_endif_cmt',
                 'indent_comment')),
    'string': ([b'"', b'"abc', b"'", b'R"(', b'R"x(abc', b'L"', b'@"', b'"\\', b'a = "x" "'],
               ('string_', 'indent_align_string', 'sp_', 'align_')),
    'pp': ([b'#', b'#if', b'#if 1', b'#define', b'#define X \\', b'#include', b'#include <', b'#pragma', b'#endif', b'#else', b'#if 1\n#else',
            b'#define X(a', b'# ', b'#if A\n{\n#else\n{ {\n#endif\n}\n', b'#if A\n{\n#else\n#endif\n}\n', b'#if A\n#elif B\n}\n#else\n{\n#endif\n',
            b'#if A\nif (a) {\n#else\nif (b) { if (c) {\n#endif\n}\n', b'#ifdef A\nif (a) {\ng();\n}\n#else\nif (a) {\ng();\n#endif\nh();\n}\n',
            b'#ifdef A\nif (a) {\n#else\nif (a) {\ng();\n}\n#endif\nh();\n}\n', b'#if A\n#elif B\nif (a) {\n#else\n#endif\n}\n'],
           ('pp_', 'nl_squeeze', 'nl_multi_line_define', 'nl_before_if_closing', 'nl_after_if', 'mod_add_long_ifdef', 'align_pp', 'align_nl_cont',
            'sp_pp', 'sp_macro', 'sp_before_nl_cont', 'indent_macro')),
    # statement fragments with nothing around them (the scans that walk back to an enclosing brace meet the start of the file)
    'bare': ([b'switch (x) case 1: y;', b'case 1: y;', b'default: z;', b'else x;', b'break;', b'return 1;', b'} else {', b'while (x) y;', b'x ? y : z;',
              b'goto l; l:', b'do x; while (y);', b': a(1) {}', b'catch (...) {}', b'operator', b'template<> class', b'public:', b'l: x;', b', a', b'= 1;',
              b'-> x', b'#define M case 1:'],
             ('nl_', 'mod_', 'pos_', 'indent_', 'align_', 'eat_blanks')),
    'block': ([b'{', b'(', b'[', b'}', b')', b']', b'if (', b'if (a)', b'else', b'do', b'for (;;', b'case', b'switch (a) {', b'switch (a) { case 1:',
               b'a ?', b'return', b'enum {', b'struct {', b'a = {', b'template<', b'class A :'],
              ('mod_', 'nl_', 'eat_blanks', 'indent_brace', 'indent_switch', 'indent_case')),
}




def _norm_msg(err):
    lines = [l for l in err.decode(errors='replace').split('\n') if l.strip() and 'Parsing:' not in l]
    if not lines:
        return ''
    s = lines[0]
    s = re.sub(r'\d+', 'N', s)
    s = re.sub(r"'[^']*'", "'X'", s)
    return s[:100]


def judge(res, quiet, source=None):
    """-> (kind, detail) or None."""
    if res.wall_timeout:
        return ('inconclusive', '')
    if res.san_report:
        return ('sanitizer', run.san_locus(res.san_report))
    if res.cpu_timeout:
        return ('hang', '')
    if res.signal:
        m = re.search(rb"terminate called after throwing an instance of '([^']+)'", res.stderr)
        return ('signal', 'sig%d %s' % (res.signal, m.group(1).decode() if m else ''))
    if res.status not in run.DOCUMENTED_STATUS:
        return ('status', 'exit %d' % res.status)
    if res.status != 0:
        if len(res.stdout) > 0 and source is not None:
            # "no part of the source has been written to standard output": a line of the source (>= 6 non-blank characters) found in stdout
            lines = {l.strip() for l in source.split(b'\n') if len(l.strip()) >= 6}
            if any(l.strip() in lines for l in res.stdout.split(b'\n')):
                return ('stdout-on-error', 'exit %d: %s' % (res.status, _norm_msg(res.stderr)))
        if not quiet and not _norm_msg(res.stderr):
            return ('no-diagnostic', 'exit %d%s' % (res.status, ' (message on stdout)' if res.stdout.strip() else ''))
    return None


def _case(t):
    """t = (case id, data bytes, lang, cfg name, mode, quiet)"""
    cid, data, lang, cfgname, mode, quiet = t
    d = case_dir('c06')
    try:
        root = os.path.dirname(d)
        # a tree that hangs on most inputs would keep 16 workers busy for hours: once enough hangs are on record the rest is skipped
        # (the run is lost anyway: it ends with VIOLATION lines and exit 1)
        hang_log = os.path.join(root, 'c06-hangs.log')
        try:
            if os.path.getsize(hang_log) >= HANG_BUDGET:
                return (cid, 'skipped-after-many-hangs', None, 0, None, None, '', '')
        except OSError:
            pass
        cfg = _cfg(cfgname, root)
        b = build.binary('asan')
        args = ['-c', cfg, '-l', lang] + (['-q'] if quiet else [])
        if mode == 'stdin':
            res = run.run(b, args, stdin=data, cwd=d, kind='asan')
        else:
            src = os.path.join(d, 'in' + corpus.ext_for(lang))
            with open(src, 'wb') as f:
                f.write(data)
            res = run.run(b, args + ['-f', src], cwd=d, kind='asan')
        v = judge(res, quiet, data)
        locus = None
        if v and v[0] == 'hang':
            with open(hang_log, 'a') as f:
                f.write('x')
        if v and v[0] in ('hang', 'signal'):
            # confirm on the plain binary and take the stack there
            pb = build.binary('plain')
            src = os.path.join(d, 'in' + corpus.ext_for(lang))
            with open(src, 'wb') as f:
                f.write(data)
            res2 = run.run(pb, ['-c', cfg, '-l', lang, '-q', '-f', src], cwd=d, kind='plain')
            if v[0] == 'hang' and not res2.cpu_timeout:
                v = ('inconclusive', 'asan cpu limit not confirmed on plain binary')
            else:
                locus = run.gdb_locus(pb, ['-c', cfg, '-l', lang, '-q', '-f', src], cwd=d,
                                      seconds=4 if v[0] == 'hang' else 15, pass_level=(v[0] == 'hang'))
                if v[0] == 'signal':
                    locus = v[1].strip() + ' @ ' + locus
                elif locus.split(' > ')[0] in ('pass align_all', 'pass indent_text', 'pass do_code_width', 'pass quick_align_again') and 'code_width' in cfg_text(cfgname):
                    # (quick_align_again() is the tail call of indent_text(): with -O2 its frame replaces indent_text's)
                    # these three passes run inside the driver's unbounded 'while (old_changes != cpd.changes)' width loop: a livelock of
                    # that loop is sampled in any of them, so they share one key
                    locus = 'width-loop (align_all/indent_text/do_code_width)'
        return (cid, res.how(), res.status, len(res.stdout), v, locus,
                res.stderr[-600:].decode(errors='replace'), (res.san_report or '')[:3000])
    finally:
        shutil.rmtree(d, ignore_errors=True)


HANG_BUDGET = 24       # bytes = hangs recorded before the remaining cases of a run are skipped
MUT_UNIVERSE = 200000
CUTS_PER_FILE = 4


def mutant(i, files):
    """Member i of the fixed mutant universe (seed-independent)."""
    r = fixed_rng(PROP, 'mut%d' % i)
    rel, lang = files[r.randrange(len(files))]
    data = mutate.mutate(corpus.read(rel), r)
    if r.random() < 0.3:
        lang = r.choice(corpus.ALL_LANGS)
    return data, lang, r.choice(CFG_NAMES), r.choice(['stdin', 'file']), r.random() < 0.1


def build_cases(ctx):
    """Every case is a member of a fixed finite universe; VERIF_SEED only selects which members run."""
    files = corpus.files()
    quick = ctx.tier == 'quick'
    cases = {}

    def add(kind, data, lang, cfgname, mode, quiet=False):
        data = data[:256 * 1024]
        cid = '%s:%s:%s:%s:%s:%d' % (kind, sha(data), lang, cfgname, mode, quiet)
        cases[cid] = (cid, data, lang, cfgname, mode, quiet)

    sr = rng(PROP, 'select')
    # fixed core: malformed tails appended to a small valid prefix, every language
    prefix = {'C': b'int f(int a)\n{\n  int b = a;\n', 'CPP': b'class A {\npublic:\n  int f(int a) {\n', 'JAVA': b'class A {\n  int f(int a) {\n',
              'CS': b'class A {\n  int f(int a) {\n', 'D': b'int f(int a) {\n', 'OC': b'@implementation A\n- (int) f:(int)a {\n',
              'OC+': b'@implementation A\n- (int) f:(int)a {\n', 'VALA': b'class A {\n  int f(int a) {\n', 'PAWN': b'public f(a)\n{\n',
              'ECMA': b'function f(a) {\n'}
    for lang in corpus.ALL_LANGS:
        for tail in mutate.MALFORMED_TAILS:
            add('tail', prefix[lang] + tail, lang, 'default', 'stdin')
            add('tail', tail, lang, 'k2', 'file')
    add('empty', b'', 'C', 'default', 'stdin')
    add('nul', b'int a;\x00int b;\n', 'C', 'default', 'stdin')
    add('nul', b'int a;\x00int b;\n', 'CPP', 'default', 'file', True)
    # universe 0: minimal malformed endings x every value of every option of the family that processes that construct
    from .. import registry, build as _b
    opts = registry.options(_b.binary('asan'))
    fam_cases = {k: [] for k in TAIL_FAMILIES}
    for fam, (tails, prefixes) in TAIL_FAMILIES.items():
        sel = [o for o in opts if o.name.startswith(prefixes) and o.type != 'string' and o.cls not in ('debug', 'file_inserting')]
        if fam == 'string':
            sel = [o for o in sel if o.name.startswith(('string_', 'indent_align_string'))] + sel[:0]
        for o in sel:
            for v in registry.values_for(o):
                if str(v).lower() == str(o.default).lower():
                    continue
                from ..cfggen import is_slow
                if is_slow(o.name, v):
                    continue
                for k, tail in enumerate(tails):
                    lang = ('D' if tail.startswith(b'/+') else ['C', 'CPP', 'CS', 'JAVA'][(k + len(o.name)) % 4])
                    if fam == 'bare':
                        # nothing in front: the fragment is the whole file
                        fam_cases[fam].append((tail + b'\n', lang, 'opt:%s=%s' % (o.name, v)))
                        continue
                    fam_cases[fam].append((prefix.get(lang, b'') + tail, lang, 'opt:%s=%s' % (o.name, v)))
                    if fam in ('comment', 'string'):
                        # the same ending after balanced code (the passes after brace matching are reached)
                        fam_cases[fam].append((b'int z;\n' + tail, lang, 'opt:%s=%s' % (o.name, v)))
    ctx.extra['tail_option_universe'] = {k: len(v) for k, v in fam_cases.items()}
    for fam, lst in fam_cases.items():
        if quick and fam == 'bare':
            # in every run: the control-flow fragments under every newline option; the rest is sampled
            head = set(TAIL_FAMILIES['bare'][0][:8])
            fixed_part = [c for c in lst if c[2].startswith('opt:nl_') and c[0].rstrip(b'\n') in head]
            lst = fixed_part + sr.sample([c for c in lst if c not in set(fixed_part)], 500)
        elif quick and fam not in ('comment', 'pp'):
            lst = sr.sample(lst, min(len(lst), 500))
        elif not quick and len(lst) > 20000:
            lst = sr.sample(lst, 20000)
        for data, lang, cfgname in lst:
            add('tailopt-' + fam, data, lang, cfgname, 'file')
    # universe G: generated valid programs (C, C++, Java, Objective-C; hostile layout) under joint draws over all option classes
    from .c01 import make_program
    GEN_U = 40000
    ctx.extra['generated_universe'] = GEN_U
    for i in sr.sample(range(GEN_U), 500 if quick else 8000):
        lang, src = make_program(i % 20000)
        add('gen%d' % i, src, {'OC': 'OC'}.get(lang, lang), 'joint:%d' % i, 'file')
    # universe 1: every line-boundary truncation of every corpus file
    pool = []
    for rel, lang in files:
        data = corpus.read(rel)
        for cut in mutate.line_truncations(data):
            pool.append((rel, lang, cut))
    ctx.extra['truncation_universe'] = len(pool)
    n_trunc = 3000 if quick else 60000
    if os.environ.get('VERIF_C06_FULL'):
        n_trunc = len(pool)
    for rel, lang, cut in sr.sample(pool, min(n_trunc, len(pool))):
        add('trunc', corpus.read(rel)[:cut], lang, 'default', 'stdin')
    # universe 2: CUTS_PER_FILE fixed mid-token cuts per corpus file
    cuts = []
    for rel, lang in files:
        n = len(corpus.read(rel))
        fr = fixed_rng(PROP, 'cut:' + rel)
        for k in range(CUTS_PER_FILE):
            if n > 2:
                cuts.append((rel, lang, fr.randrange(1, n), fr.choice(CFG_NAMES), fr.choice(['stdin', 'file'])))
    ctx.extra['cut_universe'] = len(cuts)
    for rel, lang, pos, cfgname, mode in (sr.sample(cuts, 300) if quick else cuts):
        add('cut', corpus.read(rel)[:pos], lang, cfgname, mode)
    # universe 3: MUT_UNIVERSE fixed byte/slice mutants (30 % under a wrong language, random curated config)
    n_mut = 4000 if quick else 80000
    if os.environ.get('VERIF_C06_FULL'):
        n_mut = MUT_UNIVERSE
    ctx.extra['mutant_universe'] = MUT_UNIVERSE
    for i in sr.sample(range(MUT_UNIVERSE), n_mut):
        data, lang, cfgname, mode, quiet = mutant(i, files)
        add('mut%d' % i, data, lang, cfgname, mode, quiet)
    # universe 4: corpus file x every language x fixed config
    lang_pool = []
    for rel, lang in files:
        fr = fixed_rng(PROP, 'lang:' + rel)
        for l2 in corpus.ALL_LANGS:
            lang_pool.append((rel, l2, fr.choice(CFG_NAMES)))
    ctx.extra['language_universe'] = len(lang_pool)
    for rel, l2, cfgname in (sr.sample(lang_pool, 250) if quick else lang_pool):
        add('lang', corpus.read(rel), l2, cfgname, 'file')
    return cases


def check(ctx):
    build.binary('asan')
    build.binary('plain')
    cases = build_cases(ctx)
    ctx.rule = ('cases are members of four fixed finite universes (line-boundary truncations, mid-token cuts, '
                'indexed mutants, file x language); VERIF_SEED selects which members run; one asan-instrumented process per (bytes, -l language, curated in-range config, stdin|-f mode); '
                'non-trivial = distinct case whose process ended with a documented status and either wrote output (exit 0) '
                'or refused with a diagnostic (exit != 0, empty stdout)')
    results = pmap(_case, list(cases.values()))
    for (cid, how, status, outlen, v, locus, err, san) in results:
        ctx.evaluations += 1
        kind = re.sub(r'\d+$', '', cid.split(':')[0])
        ctx.count('cases_' + kind)
        ctx.count('end_' + how)
        if how == 'skipped-after-many-hangs':
            continue
        if v is None:
            ctx.nt(cid)
            if status == 0:
                ctx.count('formatted')
            else:
                ctx.count('refused_with_diagnostic')
            continue
        if v[0] == 'inconclusive':
            ctx.count('inconclusive')
            continue
        c = cases[cid]
        key = '%s|%s' % (v[0], locus or v[1])
        if v[0] == 'hang' and c[3].startswith('opt:') and not locus.startswith('width-loop'):
            # one option away from the defaults: the option belongs to the root cause (a pass-level locus alone would let a listed hang
            # of the same pass absorb it)
            key += '|' + c[3][4:].split('=')[0]
        ctx.violation(key, '%s: %s (case %s, lang %s, config %s, mode %s)\nstderr: %s\n%s' % (
            v[0], locus or v[1], cid, c[2], c[3], c[4], err, san),
            files={'input' + corpus.ext_for(c[2]): c[1], 'config.cfg': cfg_text(c[3])},
            argv=['uncrustify', '-c', 'config.cfg', '-l', c[2], '-f', 'input' + corpus.ext_for(c[2])])
    for k in list(cases)[:3]:
        c = cases[k]
        ctx.sample(dict(case=k, lang=c[2], config=c[3], mode=c[4], first_bytes=c[1][:80].decode(errors='replace')))
    ctx.extra['sanitizer_instrumented_executions'] = ctx.evaluations
    ctx.assumptions += ['bounded time = 60 CPU-seconds on the ASan binary confirmed by 20 CPU-seconds on the plain binary; inputs <= 256 KiB',
                        'ASan/UBSan see only red-zone and UB events on executed paths',
                        'configs: default + 4 curated in-range configs (whitespace, newline, mod, width, encoding mixes)']
    ctx.require('formatted', 500)
    ctx.require('refused_with_diagnostic', 50)
