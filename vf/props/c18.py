"""C18 - indentation reflects block nesting: re-indentation invariance and the closed-form column of statement-start lines."""
import json
import os
import random
import re

from .. import build, cfggen, corpus, fmt, layout, lex, minimise, progen, registry, tokoracle
from ..common import VERIF, pmap, rng, fixed_rng
from .c07 import statement_points

LEVEL = 'exploration'
PROP = 'C18'
NL = re.compile(rb'\r\n|\r|\n')
WSRE = re.compile(rb'[ \t]+')
MODEL_FILE = os.path.join(VERIF, 'data', 'indent_model.json')
# options whose documented purpose is to let the original column through (not "unrelated options")
ORIG_DEPENDENT = re.compile(r'keep|relative|col1|_ignore|indent_single_newlines|align_with_tabs|cmt_|indent_cmt|string_replace|indent_label|'
                            r'nl_remove_extra|pp_ignore|sp_before_tr_cmt|sp_num_before_tr|indent_sing|use_indent_continue_only_once|'
                            r'indent_macro_brace|indent_first_for_expr|indent_first_bool_expr|indent_ternary|indent_align_string|code_width|ls_|^pos_|^indent_comment$')


def width(lead, tab):
    w = 0
    for ch in lead:
        if ch == 9:
            w = (w // tab + 1) * tab
        else:
            w += 1
    return w


def lead_of(line):
    return line[:len(line) - len(line.lstrip(b' \t'))]


def squeeze(line):
    return WSRE.sub(b'', line)


def split_lines(data):
    ls = NL.split(data)
    if ls and ls[-1] == b'':
        ls = ls[:-1]
    return ls


# ---------------------------------------------------------------------------------------------
# closed form

def expected_width(ln, cfg):
    """Expected leading width of the physical line that starts with Line ln under the modelled options."""
    ic = cfg['indent_columns']
    level = ln.depth + ln.vdepth + ln.case_body
    w = level * ic
    if ln.ns and cfg.get('indent_namespace'):
        w += ic
    if ln.cls and cfg.get('indent_class'):
        w += ic
    w += ln.in_switch * cfg.get('indent_switch_case', 0)
    if ln.role in ('open', 'close', 'close-do', 'bare-open') and cfg.get('indent_braces'):
        w += ic
    return w


def model_config(fr, lang):
    ic = fr.randint(1, 16)
    cfg = dict(indent_columns=ic, indent_with_tabs=fr.choice([0, 1, 2]), output_tab_size=fr.choice([2, 3, 4, 8]),
               input_tab_size=fr.choice([2, 4, 8]), indent_switch_case=fr.choice([0, 0, ic, 2, 3]),
               indent_namespace=fr.random() < 0.5, indent_class=fr.random() < 0.5)
    return cfg


def cfg_assign(cfg):
    a = {}
    for k, v in cfg.items():
        a[k] = ('true' if v else 'false') if isinstance(v, bool) else str(v)
    return a


def gen_program(i):
    fr = fixed_rng(PROP, 'prog%d' % i)
    lang = fr.choice(['C', 'C', 'CPP', 'CPP', 'JAVA'])
    P = progen.gen(lang, fr, nfuncs=(1, 3), depth_max=fr.choice([3, 5, 8]), stmts=(1, 4), comments=True)
    return lang, P, fr


def _closed(t):
    cid, i, extra = t
    lang, P, fr = gen_program(i)
    cfg = model_config(fr, lang)
    src, idx = P.render(fr, style='mixed', indent=fr.choice([0, 2, 4]), random_indent=fr.random() < 0.5, tabs=True)
    a = cfg_assign(cfg)
    a.update(extra)
    f = fmt.fmt(src, lang, cfggen.text(a))
    if f.out is None:
        return dict(cid=cid, status='rejected', viols=[])
    il, ol = split_lines(src), split_lines(f.out)
    if len(il) != len(ol) or any(squeeze(p) != squeeze(q) for p, q in zip(il, ol)):
        return dict(cid=cid, status='unmapped', viols=[])
    viols = []
    judged = 0
    depths = set()
    for k, line in enumerate(ol):
        ln = P.lines[idx[k]]
        if ln.role == 'pp':
            continue
        want = expected_width(ln, cfg)
        got = width(lead_of(line), cfg['output_tab_size'])
        judged += 1
        depths.add(ln.depth + ln.vdepth + ln.case_body)
        if want != got:
            role = ln.role
            viols.append(('closed-form|%s' % role, 'line %d %r (role %s, depth %d, braceless %d, case %d, switch %d, ns/cls %d): width %d, expected %d; model %s' % (
                k + 1, line.strip()[:40], role, ln.depth, ln.vdepth, ln.case_body, ln.in_switch, ln.ns + ln.cls, got, want, cfg)))
            break
    return dict(cid=cid, status='ok', viols=viols, judged=judged, depths=len(depths), maxdepth=max(depths) if depths else 0,
                input=src if viols else None, cfg=cfggen.text(a), nontrivial=f.out != src, lang=lang, assign=a)


def _invariance(t):
    cid, kind, spec, assign = t
    if kind == 'gen':
        lang, P, fr = gen_program(spec)
        base, idx = P.render(fr, style='mixed', indent=3)
        variants = []
        for v in range(3):
            vr = fixed_rng(PROP, 'var:%d:%d' % (spec, v))
            # same brace style choices: re-render with the same style rng state is not possible, so re-indent the rendered text
            variants.append(reindent_all(base, vr))
        points = None
    else:
        rel, lang = spec
        base = NL.sub(b'\n', corpus.read(rel))
        if b'INDENT-O' in base or b'asm' in base or b'\x00' in base or base[:2] in (b'\xff\xfe', b'\xfe\xff'):
            return dict(cid=cid, status='skipped', viols=[])
        if not tokoracle.well_lexed(lex.lex(base, lang)):
            return dict(cid=cid, status='input-not-well-lexed', viols=[])
        points = set(statement_points(base, lang))
        if len(points) < 3:
            return dict(cid=cid, status='skipped', viols=[])
        variants = []
        for v in range(2):
            vr = fixed_rng(PROP, 'cvar:%s:%d' % (rel, v))
            variants.append(reindent_points(base, points, vr))
    K = cfggen.text(assign)
    f0 = fmt.fmt(base, lang, K)
    if f0.out is None:
        return dict(cid=cid, status='rejected', viols=[])
    o0 = split_lines(f0.out)
    viols = []
    judged = 0
    if points is not None:
        # statement-start lines of the input, located in the output through the (unchanged) line structure
        i0 = split_lines(base)
        if len(i0) != len(o0) or any(squeeze(p) != squeeze(q) for p, q in zip(i0, o0)):
            return dict(cid=cid, status='unmapped', viols=[])
    for vi, x in enumerate(variants):
        f = fmt.fmt(x, lang, K)
        if f.out is None:
            viols.append(('invariance-status', 're-indented input is rejected (%s) though the original is accepted' % f.res.how()))
            break
        o = split_lines(f.out)
        if len(o) != len(o0):
            viols.append(('invariance-lines', 'line structure of the output depends on the original indentation: %d vs %d lines' % (len(o0), len(o))))
            break
        for k, (p, q) in enumerate(zip(o0, o)):
            if points is not None and k not in points:
                continue
            judged += 1
            if lead_of(p) != lead_of(q) and squeeze(p) == squeeze(q):
                viols.append(('invariance', 'output line %d %r: leading whitespace %r vs %r after re-indenting the input' % (
                    k + 1, p.strip()[:40], lead_of(p), lead_of(q))))
                break
        if viols:
            break
    out = []
    for kind_, detail in viols:
        small = assign
        if len(assign) > 1:
            def pred(sub):
                K2 = cfggen.text(sub)
                g0 = fmt.fmt(base, lang, K2)
                if g0.out is None:
                    return False
                a0 = split_lines(g0.out)
                for x in variants:
                    g = fmt.fmt(x, lang, K2)
                    if g.out is None:
                        return False
                    a = split_lines(g.out)
                    if len(a) != len(a0):
                        return kind_ == 'invariance-lines'
                    for k, (p, q) in enumerate(zip(a0, a)):
                        if points is not None and k not in points:
                            continue
                        if lead_of(p) != lead_of(q) and squeeze(p) == squeeze(q):
                            return kind_ == 'invariance'
                return False
            small = minimise.minimise_cfg(assign, pred, max_runs=50)
        out.append((kind_, detail, small))
    return dict(cid=cid, status='ok', viols=out, judged=judged, input=base if out else None, variant=variants[0] if out else None,
                nontrivial=f0.out != base, lang=lang)


STYLE_OPTS = [('indent_brace', ['0', '1', '2', '3', '4']), ('indent_braces', ['true', 'false']), ('indent_braces_no_func', ['true', 'false']),
              ('indent_braces_no_class', ['true', 'false']), ('indent_braces_no_struct', ['true', 'false']), ('indent_case_brace', ['0', '2', '-2']),
              ('indent_switch_case', ['0', '2', '4']), ('indent_switch_body', ['0', '2']), ('indent_else_if', ['true', 'false']),
              ('indent_namespace', ['true', 'false']), ('indent_class', ['true', 'false']), ('indent_continue', ['0', '2']),
              ('indent_func_call_param', ['true', 'false']), ('indent_paren_close', ['0', '1', '2']), ('indent_min_vbrace_open', ['0', '2']),
              ('indent_vbrace_open_on_tabstop', ['true', 'false']), ('indent_case_shift', ['0', '1'])]


def _consistency(t):
    """Siblings of one block start in one column; the arms of an if/else chain put their braces and bodies in the same columns."""
    cid, i = t
    lang, P, fr = gen_program(i)
    a = {'indent_columns': str(fr.randint(1, 8)), 'indent_with_tabs': '0'}
    for name, vals in fr.sample(STYLE_OPTS, fr.choice([1, 2, 3, 5])):
        a[name] = fr.choice(vals)
    src, idx = P.render(fr, style='allman', indent=fr.choice([0, 2, 4]), random_indent=fr.random() < 0.5)
    f = fmt.fmt(src, lang, cfggen.text(a))
    if f.out is None:
        return dict(cid=cid, status='rejected', viols=[])
    il, ol = split_lines(src), split_lines(f.out)
    if len(il) != len(ol) or any(squeeze(p) != squeeze(q) for p, q in zip(il, ol)):
        return dict(cid=cid, status='unmapped', viols=[])
    L = P.lines
    w = {}
    for k, line in enumerate(ol):
        w[idx[k]] = len(lead_of(line))
    viols = []
    groups = {}
    for li, ln in enumerate(L):
        if ln.grp is not None and li in w and ln.role in ('stmt', 'head', 'comment', 'do-while'):
            groups.setdefault(ln.grp, []).append(li)
    judged = 0
    for g, members in groups.items():
        judged += len(members)
        ws = {w[m] for m in members}
        if len(ws) > 1:
            m0 = members[0]
            m1 = next(m for m in members if w[m] != w[m0])
            viols.append(('siblings', 'statements of one block start in different columns: %r at %d, %r at %d' % (
                L[m0].text[:30], w[m0], L[m1].text[:30], w[m1])))
            break
    # arms of a chain
    if not viols and 'indent_brace_parent' not in a:
        for hi, ln in enumerate(L):
            if ln.role != 'head':
                continue
            heads = [hi] + [j for j, l2 in enumerate(L) if l2.role == 'head-else' and l2.opener == hi]
            if len(heads) < 2:
                continue
            opens = [j for j, l2 in enumerate(L) if l2.role == 'open' and l2.opener in heads and j in w]
            closes = [j for j, l2 in enumerate(L) if l2.role == 'close' and l2.opener in heads and j in w]
            firsts = [j + 1 for j in opens if j + 1 in w and L[j + 1].role in ('stmt', 'head', 'comment')]
            judged += len(opens) + len(closes) + len(firsts)
            for what, xs in (('opening braces', opens), ('closing braces', closes), ('first body statements', firsts), ('keywords', [h for h in heads if h in w])):
                if len({w[j] for j in xs}) > 1:
                    viols.append(('chain-arms|' + what.split()[0], 'the %s of the arms of one if/else chain are in different columns: %s' % (
                        what, [(L[j].text[:20], w[j]) for j in xs][:4])))
                    break
            if viols:
                break
    # a closing brace lines up with its opening brace
    if not viols:
        for j, l2 in enumerate(L):
            if l2.role in ('close', 'close-do') and j in w:
                o = next((q for q in range(j - 1, -1, -1) if L[q].role in ('open', 'bare-open') and L[q].opener == l2.opener and L[q].depth == l2.depth
                          and L[q].vdepth == l2.vdepth and L[q].case_body == l2.case_body), None)
                if o is not None and o in w:
                    judged += 1
                    if w[o] != w[j]:
                        viols.append(('brace-pair', 'a closing brace is not in the column of its opening brace: %d vs %d (opened by %r)' % (
                            w[j], w[o], L[l2.opener].text[:30] if l2.opener is not None else '')))
                        break
    out = []
    for kind, detail in viols:
        out.append((kind, detail, a))
    return dict(cid=cid, status='ok', viols=out, judged=judged, input=src if out else None, cfg=cfggen.text(a), nontrivial=f.out != src, lang=lang)


VFC_LINE = re.compile(rb'^[ \t]*(/\* vfc\d+ \*/|// vfc\d+)[ \t]*$')
VFT_TAIL = re.compile(rb'[ \t]*(/\* vft\d+ \*/|// vft\d+)[ \t]*$')
WORD = re.compile(rb'[A-Za-z_][A-Za-z_0-9]*|[^A-Za-z_0-9\s]')


def inject_line_comments(data, r, p_own=0.25, p_tail=0.2):
    """Comments at line granularity only: own-line comments between two lines, trailing comments at the end of a line."""
    out = []
    lines = data.split(b'\n')
    for k, line in enumerate(lines):
        st = line.strip()
        is_pp = st.startswith(b'#')
        if k > 0 and st and not is_pp and not lines[k - 1].rstrip().endswith(b'\\') and r.random() < p_own:
            c = (b'/* vfc%d */' if r.random() < 0.5 else b'// vfc%d') % k
            out.append(b' ' * r.randint(0, 12) + c)
        if st and not is_pp and not st.endswith(b'\\') and b'//' not in st and r.random() < p_tail:
            c = (b'/* vft%d */' if r.random() < 0.5 else b'// vft%d') % k
            line = line + b' ' * r.randint(1, 3) + c
        out.append(line)
    return b'\n'.join(out)


def strip_injected(data):
    out = []
    for line in split_lines(data):
        if VFC_LINE.match(line):
            continue
        out.append(VFT_TAIL.sub(b'', line))
    return out


def _comment_invariance(t):
    """Indentation reflects nesting, and a comment does not change nesting: the code lines keep their leading whitespace when comments are
    put between lines or at the end of lines."""
    cid, kind, spec, a = t
    if kind == 'gen':
        lang, P, fr = gen_program(spec)
        base, _ = P.render(fr, style=fr.choice(['allman', 'mixed']), indent=3)
    else:
        name, lang, text = progen.mod_hosts()[spec]
        base = text
        fr = fixed_rng(PROP, 'cmthost:%s' % cid)
    f0 = fmt.fmt(base, lang, cfggen.text(a), name='Gen.java' if lang == 'JAVA' else None)
    if f0.out is None:
        return dict(cid=cid, status='rejected', viols=[])
    viols = []
    judged = 0
    variant = None
    for v in range(2):
        vr = fixed_rng(PROP, 'cmtvar:%s:%d' % (cid, v))
        x1 = inject_line_comments(base, vr)
        f1 = fmt.fmt(x1, lang, cfggen.text(a), name='Gen.java' if lang == 'JAVA' else None)
        if f1.out is None:
            viols.append(('comment-changes-status', 'with comments between / after lines the run ends with %s' % f1.res.how()))
            variant = x1
            break
        l0 = [l for l in split_lines(f0.out)]
        l1 = strip_injected(f1.out)
        if len(l0) != len(l1) or any(squeeze(p) != squeeze(q) for p, q in zip(l0, l1)):
            return dict(cid=cid, status='unmapped', viols=[])
        for k, (p, q) in enumerate(zip(l0, l1)):
            if not p.strip() or p.strip().startswith((b'/*', b'//')):
                continue            # the statement speaks of statements; comment lines may follow their neighbours
            judged += 1
            if lead_of(p) != lead_of(q):
                prev = next((l0[j] for j in range(k - 1, -1, -1) if l0[j].strip()), b'')
                pw = WORD.findall(prev)
                tw = WORD.findall(p)
                ctxt = '%s->%s' % (pw[-1].decode('latin-1') if pw else '', tw[0].decode('latin-1') if tw else '')
                if pw and pw[-1] == b':' and len(pw) > 1:
                    ctxt = '%s:->%s' % ('case' if pw[0] in (b'case', b'default') else 'label', tw[0].decode('latin-1'))
                viols.append(('comment-changes-indent|' + ctxt, 'line %d %r: leading whitespace %r without the injected comments, %r with them' % (
                    k + 1, p.strip()[:40], lead_of(p), lead_of(q))))
                variant = x1
                break
        if viols:
            break
    return dict(cid=cid, status='ok', viols=[(k_, d, a) for k_, d in viols], judged=judged, input=base if viols else None, variant=variant,
                cfg=cfggen.text(a), nontrivial=f0.out != base, lang=lang)


PP_OPEN = [['if (a > 0)', '{'], ['if (b > 0) {'], ['while (c > 0)', '{'], ['for (;;) {']]
PP_BAL = [['r = a;'], ['r = b;'], ['if (c)', '   r = c;'], ['r = d;', 'r++;']]


def pp_alt_host(nalt, kind, deep, style):
    """-> [(tag, line)]: a function whose body holds one '#if' group with nalt alternatives; tag is 'c' (common), 'd' (directive) or the
    index of the alternative the line belongs to.  kind 'open': every alternative opens a block that is closed after '#endif'."""
    L = [('c', 'int f(int a, int b, int c, int d)'), ('c', '{'), ('c', 'int r = 0;')]
    if deep:
        L += [('c', 'if (d > 1)'), ('c', '{')]
    alts = (PP_OPEN if kind == 'open' else PP_BAL)[:nalt]
    for k, alt in enumerate(alts):
        if k == 0:
            L.append(('d', '#ifdef A' if style == 'ifdef' else '#if defined(A)'))
        elif k == nalt - 1:
            L.append(('d', '#else'))
        else:
            L.append(('d', '#elif defined(B%d)' % k))
        L += [(k, l) for l in alt]
    L.append(('d', '#endif'))
    if kind == 'open':
        L += [('c', 'r = 1;'), ('c', 'if (r)'), ('c', '{'), ('c', 'r--;'), ('c', '}'), ('c', '}')]
    L += [('c', 'r += 2;')]
    if deep:
        L += [('c', '}')]
    L += [('c', 'return r;'), ('c', '}'), ('c', '')]
    return L


def _pp_alternatives(t):
    """Each alternative of a preprocessor conditional is laid out as if it were the only one: the lines of alternative k and the common lines
    get the leading whitespace they get in the program that holds alternative k alone."""
    cid, nalt, kind, deep, style, a = t
    L = pp_alt_host(nalt, kind, deep, style)
    fr = fixed_rng(PROP, 'ppalt:' + cid)
    ind = lambda: b' ' * fr.randint(0, 12)
    full = b'\n'.join((b'' if tag == 'd' else ind()) + l.encode() for tag, l in L)
    f = fmt.fmt(full, 'C', cfggen.text(a))
    if f.out is None:
        return dict(cid=cid, status='rejected', viols=[])
    ol = f.out.split(b'\n')
    if len(ol) != len(L) or any(squeeze(o) != squeeze(l.encode()) for o, (_, l) in zip(ol, L)):
        return dict(cid=cid, status='unmapped', viols=[])
    viols = []
    judged = 0
    for k in range(nalt):
        keep = [i for i, (tag, _) in enumerate(L) if tag == 'c' or tag == k]
        single = b'\n'.join(ind() + L[i][1].encode() for i in keep)
        g = fmt.fmt(single, 'C', cfggen.text(a))
        if g.out is None:
            continue
        gl = g.out.split(b'\n')
        if len(gl) != len(keep):
            continue
        for i, q in zip(keep, gl):
            if not q.strip():
                continue
            judged += 1
            if lead_of(ol[i]) != lead_of(q):
                where = 'alternative' if L[i][0] == k else ('after-endif' if i > max(j for j, (tg, _) in enumerate(L) if tg == 'd') else 'before-if')
                viols.append(('pp-alternative|%s|alt%d-of-%d|%s' % (kind, k + 1, nalt, where),
                              'line %d %r: leading whitespace %r in the program with the conditional, %r in the program that holds alternative %d alone' % (
                                  i + 1, ol[i].strip()[:40], lead_of(ol[i]), lead_of(q), k + 1)))
                break
        if viols:
            break
    return dict(cid=cid, status='ok', viols=[(k_, d, a) for k_, d in viols], judged=judged, input=full if viols else None, cfg=cfggen.text(a),
                nontrivial=f.out != full, lang='C')


def reindent_all(data, r):
    out = []
    for line in data.split(b'\n'):
        if line.strip(b' \t') and not line.lstrip().startswith(b'#'):
            n = r.randint(1 if line.lstrip().startswith(b'/') else 0, 40)
            lead = r.choice([b' ' * n, b'\t' * (n // 8) + b' ' * (n % 8), b'\t' * (n // 4)]) or b' '
            line = lead + line.lstrip(b' \t')
        out.append(line)
    return b'\n'.join(out)


def reindent_points(data, points, r):
    out = []
    for k, line in enumerate(data.split(b'\n')):
        if k in points and line.strip(b' \t'):
            n = r.randint(0, 40)
            lead = r.choice([b' ' * n, b'\t' * (n // 8) + b' ' * (n % 8)])
            line = lead + line.lstrip(b' \t')
        out.append(line)
    return b'\n'.join(out)


def invariance_pool(opts):
    return [o for o in cfggen.ws_options(opts) if not ORIG_DEPENDENT.search(o.name) and not o.name.startswith('nl_')]


def check(ctx):
    b = build.binary('plain')
    quick = ctx.tier == 'quick'
    sr = rng(PROP, 'select')
    opts = registry.options(b)
    pool = invariance_pool(opts)
    sp_pool = [o for o in pool if o.name.startswith('sp_') and o.type == 'iarf']
    files = [(rel, lang) for rel, lang in corpus.files()]
    PU = 50000
    ctx.extra['program_universe'] = PU
    # closed form: programs x modelled options (+ random sp_ options, which must be irrelevant)
    closed = []
    for i in sr.sample(range(PU), 2500 if quick else 30000):
        fr = fixed_rng(PROP, 'cx%d' % i)
        extra = {}
        if fr.random() < 0.5:
            for o in fr.sample(sp_pool, fr.choice([3, 10, 40])):
                extra[o.name] = fr.choice(['add', 'remove', 'force', 'ignore'])
        closed.append(('closed:%d' % i, i, extra))
    inv = []
    for i in sr.sample(range(PU), 700 if quick else 8000):
        fr = fixed_rng(PROP, 'ix%d' % i)
        a = cfg_assign(model_config(fr, 'C')) if fr.random() < 0.5 else {}
        if fr.random() < 0.6:
            a.update(cfggen.joint(opts, fr, pool=pool))
        inv.append(('inv-gen:%d' % i, 'gen', i, a))
    for rel, lang in (sr.sample(files, 250) if quick else files):
        fr = fixed_rng(PROP, 'ic:' + rel)
        a = cfg_assign(model_config(fr, lang)) if fr.random() < 0.5 else {}
        inv.append(('inv-corpus:%s' % rel, 'corpus', (rel, lang), a))
    cons = [('cons:%d' % i, i) for i in sr.sample(range(PU), 1500 if quick else 20000)]
    ctx.rule = ('generated block-structured C/C++/Java programs (one statement, brace or label per line; nesting depth up to 8; if/else chains, '
                'braceless bodies, for/while/do-while, switch/case with fall-through, bare blocks, namespaces, classes), brace placement mixed per '
                'construct, input indentation random per line.  Oracle 1 (invariance): re-indenting every line of the input (3 variants; corpus files: '
                'the statement-start lines, 2 variants) leaves the leading whitespace of every (statement-start) output line unchanged, under model '
                'options and joint draws of options that are not documented to keep original columns.  Oracle 2 (closed form): leading width = '
                '(brace depth + braceless nesting + enclosing case labels) x indent_columns + enclosing switches x indent_switch_case (+ indent_columns '
                'inside a namespace with indent_namespace), closing braces at the column of the statement that opened the block, for indent_columns '
                '1..16 x indent_with_tabs 0..2 x output_tab_size {2,3,4,8}, with random sp_ options that must be irrelevant.  non-trivial = accepted '
                'case whose output differs from the input')
    seen = set()
    tot_j = 0
    maxdepth = 0
    okc = []
    for r in pmap(_closed, closed):
        ctx.evaluations += 1
        ctx.count('closed_' + r['status'])
        if r['status'] != 'ok':
            continue
        okc.append(r)
        tot_j += r['judged']
        maxdepth = max(maxdepth, r['maxdepth'])
        if r['nontrivial']:
            ctx.nt(r['cid'])
        for kind, detail in r['viols']:
            ex = {k: v for k, v in r['assign'].items() if k.startswith('indent_') and k not in ('indent_columns', 'indent_with_tabs')}
            key = '%s|%s|%s' % (kind, r['lang'], ','.join('%s=%s' % kv for kv in sorted(ex.items()) if kv[1] not in ('0', 'false')))
            if key in seen:
                continue
            seen.add(key)
            ctx.violation(key, '%s (case %s): %s' % (kind, r['cid'], detail), files={'input': r['input'], 'config.cfg': r['cfg']})
    ctx.count('closed_form_lines_judged', tot_j)
    ctx.count('closed_form_max_level', maxdepth)
    tot_i = 0
    for r in pmap(_invariance, inv):
        ctx.evaluations += 3
        ctx.count('inv_' + r['cid'].split(':')[0] + '_' + r['status'])
        if r['status'] != 'ok':
            continue
        tot_i += r['judged']
        if r['nontrivial']:
            ctx.nt(r['cid'])
        for kind, detail, small in r['viols']:
            optkey = ','.join('%s=%s' % kv for kv in sorted(small.items())) if len(small) <= 3 else '%d-options:%s' % (len(small), r['cid'])
            if not small:
                optkey = 'default:' + r['cid']
            key = '%s|%s' % (kind, optkey)
            if key in seen:
                continue
            seen.add(key)
            ctx.violation(key, '%s (case %s): %s\n  minimal options: %s' % (kind, r['cid'], detail, small),
                          files={'input': r['input'], 'input-reindented': r['variant'], 'config.cfg': cfggen.text(small)})
    ctx.count('invariance_lines_judged', tot_i)
    tot_c = 0
    for r in pmap(_consistency, cons):
        ctx.evaluations += 1
        ctx.count('consistency_' + r['status'])
        if r['status'] != 'ok':
            continue
        tot_c += r['judged']
        if r['nontrivial']:
            ctx.nt(r['cid'])
        for kind, detail, a in r['viols']:
            def pred(sub, kind=kind, cid=r['cid']):
                return False
            key = '%s|%s' % (kind, ','.join('%s=%s' % kv for kv in sorted(a.items()) if kv[0] not in ('indent_columns', 'indent_with_tabs')))
            if key in seen:
                continue
            seen.add(key)
            ctx.violation(key, '%s (case %s, %s): %s\n  options: %s' % (kind, r['cid'], r['lang'], detail, a), files={'input': r['input'], 'config.cfg': r['cfg']})
    ctx.count('consistency_lines_judged', tot_c)
    # comment invariance: generated programs and the hand-written hosts (case braces, lambdas / blocks as arguments, one-liners)
    cm = []
    for i in sr.sample(range(PU), 500 if quick else 6000):
        fr = fixed_rng(PROP, 'cmx%d' % i)
        a = cfg_assign(model_config(fr, 'C'))
        for name, vals in fr.sample(STYLE_OPTS, fr.choice([0, 1, 2, 4])):
            a[name] = fr.choice(vals)
        cm.append(('cmt-gen:%d' % i, 'gen', i, a))
    for h, (hname, hlang, htext) in enumerate(progen.mod_hosts()):
        for j in range(12 if quick else 120):
            fr = fixed_rng(PROP, 'cmh:%s:%d' % (hname, j))
            a = cfg_assign(model_config(fr, hlang)) if j else {}
            for name, vals in fr.sample(STYLE_OPTS, fr.choice([0, 1, 2, 4]) if j else 0):
                a[name] = fr.choice(vals)
            cm.append(('cmt-host:%s:%d' % (hname, j), 'host', h, a))
    tot_m = 0
    for r in pmap(_comment_invariance, cm):
        ctx.evaluations += 3
        ctx.count('comment_inv_' + r['status'])
        if r['status'] != 'ok':
            continue
        tot_m += r['judged']
        if r['nontrivial']:
            ctx.nt(r['cid'])
        for kind, detail, a in r['viols']:
            key = '%s|%s' % (kind, r['lang'])
            if key in seen:
                continue
            seen.add(key)
            ctx.violation(key, '%s (case %s, %s): %s\n  options: %s' % (kind, r['cid'], r['lang'], detail, a),
                          files={'input': r['input'], 'input-with-comments': r['variant'], 'config.cfg': r['cfg']})
    ctx.count('comment_invariance_lines_judged', tot_m)
    # preprocessor conditionals with 2..4 alternatives, each opening a block (closed after #endif) or balanced
    pa = []
    for nalt in (2, 3, 4):
        for kind in ('open', 'bal'):
            for deep in (0, 1):
                for style in ('if', 'ifdef'):
                    for j in range(6 if quick else 40):
                        fr = fixed_rng(PROP, 'ppa:%d:%s:%d:%s:%d' % (nalt, kind, deep, style, j))
                        a = cfg_assign(model_config(fr, 'C')) if j else {}
                        for name, vals in fr.sample(STYLE_OPTS, fr.choice([0, 1, 2, 4]) if j else 0):
                            a[name] = fr.choice(vals)
                        pa.append(('%d:%s:%d:%s:%d' % (nalt, kind, deep, style, j), nalt, kind, deep, style, a))
    tot_p = 0
    for r in pmap(_pp_alternatives, pa):
        ctx.evaluations += 1
        ctx.count('pp_alternatives_' + r['status'])
        if r['status'] != 'ok':
            continue
        tot_p += r['judged']
        if r['nontrivial']:
            ctx.nt('ppalt', r['cid'])
        for kind, detail, a in r['viols']:
            if kind in seen:
                continue
            seen.add(kind)
            ctx.violation(kind, '%s (case %s): %s\n  options: %s' % (kind, r['cid'], detail, a), files={'input': r['input'], 'config.cfg': r['cfg']})
    ctx.count('pp_alternative_lines_judged', tot_p)
    for r in okc[:3]:
        ctx.sample(dict(case=r['cid'], lang=r['lang'], lines_judged=r['judged'], max_level=r['maxdepth']))
    ctx.assumptions += ['the closed form covers indent_columns, indent_with_tabs, output_tab_size, indent_switch_case and indent_namespace; other '
                        'brace-style options are exercised through the invariance oracle only',
                        'options documented to keep original columns (names matching keep/relative/col1/_ignore/..., comment options, code_width) '
                        'are excluded from the invariance draws',
                        'corpus invariance judges lines whose previous code token is ; { or } (statement starts) and needs an unchanged line structure']
    ctx.require('closed_ok', 1500)
    ctx.require('closed_form_lines_judged', 60000)
    ctx.require('invariance_lines_judged', 40000)
    ctx.require('consistency_lines_judged', 40000)
    ctx.require('comment_invariance_lines_judged', 20000)
    ctx.require('pp_alternative_lines_judged', 2000)
