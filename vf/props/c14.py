"""C14 - the backup always holds the last text uncrustify did not write itself (histories vs invariants of the documented protocol)."""
import hashlib
import itertools
import os
import shutil

from .. import build, faults, fmt, run
from ..common import case_dir, pmap, rng, fixed_rng, sha

LEVEL = 'exploration'
PROP = 'C14'
NAME = 'hist.c'
BACKUP = NAME + '.unc-backup~'
MD5 = NAME + '.unc-backup.md5~'
CFG = {'A': 'indent_columns=4\nindent_with_tabs=0\n', 'B': 'indent_columns=2\nindent_with_tabs=0\nsp_arith=force\nsp_assign=force\n'}
U = b'int f(int a){int b=a+1;\nif(a){b=b*2;}\nreturn b;}\n'
U2 = b'int g(int x){\nwhile(x){x=x-1;}\nreturn x;}\n'

# alphabet: user writes and runs
WRITES = ['wU', 'wU2', 'wFA', 'wS']
RUNS = ['rA', 'rB', 'rAi', 'rBi']        # i = --if-changed


def F(x, k):
    return fmt.fmt(x, 'C', CFG[k]).out


def md5hex(b):
    return hashlib.md5(b).hexdigest()


class World:
    """Executes a history against the real binary in a private directory and checks the invariants after every step."""

    def __init__(self, d):
        self.d = d
        self.last_user = None       # content of the last effective user edit
        self.tool_out = None        # what the last completed run left in the file
        self.user_at_run = None     # last_user at that moment
        self.log = []
        self.probs = []
        self.runs = 0
        self.changed = False
        self.kill_locus = None

    def read(self, n):
        p = os.path.join(self.d, n)
        if not os.path.exists(p):
            return None
        with open(p, 'rb') as f:
            return f.read()

    def write(self, op):
        cur = self.read(NAME)
        if op.startswith('wV'):
            c = U + b'// v%d\n' % int(op[2:])        # digest sweep: many contents, hence many md5 values
        else:
            c = {'wU': U, 'wU2': U2, 'wFA': F(U, 'A'), 'wS': cur if cur is not None else U}[op]
        if c != cur:
            if self.tool_out is not None and c == self.tool_out:
                # the user restored exactly the bytes the last run left: to any tool that looks at content (the md5 protocol) this is
                # the situation right after that run, not a new edit
                self.last_user = self.user_at_run
            else:
                self.last_user = c
        with open(os.path.join(self.d, NAME), 'wb') as f:
            f.write(c)
        self.log.append('%s (%d B)' % (op, len(c)))

    def args(self, op):
        a = ['-q', '-c', fmt.cfg_file(CFG[op[1]]), '-l', 'C', '--replace']
        if op.endswith('i'):
            a.append('--if-changed')
        return a + [NAME]

    def run(self, op):
        before = self.read(NAME)
        r = run.run(build.binary('plain'), self.args(op), cwd=self.d)
        self.runs += 1
        after = self.read(NAME)
        self.log.append('%s -> exit %s, file %s' % (op, r.status, 'changed' if after != before else 'unchanged'))
        if r.status != 0:
            self.probs.append(('run-failed', '%s exits %s' % (op, r.status)))
            return
        if after != before:
            self.changed = True
        self.tool_out, self.user_at_run = after, self.last_user
        expect = F(before, op[1])
        if after != expect:
            self.probs.append(('wrong-result', '%s left %s in the file instead of the formatted text' % (op, sha(after or b''))))
        self.invariants(op, completed=True, wrote=not (op.endswith('i') and expect == before))

    def kill(self, op, k):
        """Run `op` under strace and kill it on entry to the k-th syscall of its window.  False if k is beyond the window."""
        tmp = self.d + '.ref'
        if os.path.isdir(tmp):
            shutil.rmtree(tmp)
        shutil.copytree(self.d, tmp)
        res, tr, _ = faults.strace_run(build.binary('plain'), self.args(op), tmp, trace_path=self.d + '.trace')
        shutil.rmtree(tmp)
        win = faults.window(tr, '"' + NAME)
        if k >= len(win):
            return False
        _, name, occ, rest = win[k]
        self.kill_locus = kill_locus(win, k)
        res, tr, _ = faults.strace_run(build.binary('plain'), self.args(op), self.d,
                                       inject=['%s:signal=SIGKILL:when=%d' % (name, occ)], trace_path=self.d + '.trace')
        self.runs += 2
        self.log.append('%s killed before %s#%d(%s' % (op, name, occ, rest[:40]))
        if res.signal != 9:
            return False
        self.invariants(op + ' (killed)', completed=False, wrote=False)
        return True

    def invariants(self, op, completed, wrote):
        cur = self.read(NAME)
        bak = self.read(BACKUP)
        md5 = self.read(MD5)
        if cur is not None and self.last_user is not None and cur != self.last_user:
            # uncrustify changed the file since the last user edit: the backup must hold that edit
            if bak is None:
                self.probs.append(('backup-missing', 'after %s the file differs from the last user text and no backup exists' % op))
            elif bak != self.last_user:
                own = [k for k in CFG if bak in (F(self.last_user, k), F(F(self.last_user, 'A'), 'B'), F(F(self.last_user, 'B'), 'A'))]
                self.probs.append(('backup-lost', 'after %s the backup does not hold the last user text (%s)' % (
                    op, "it holds uncrustify's own output" if own else 'it holds %s' % sha(bak))))
        if completed and wrote:
            if md5 is None:
                self.probs.append(('md5-missing', 'after %s there is no md5 file' % op))
            elif md5[:32].decode(errors='replace').lower() != md5hex(cur):
                what = 'the text before the run' if self.last_user is not None and md5[:32].decode(errors='replace') == md5hex(self.last_user) else 'something else'
                self.probs.append(('md5-stale', 'after %s the md5 file does not describe the content left in the file (it describes %s)' % (op, what)))


def file_class(rest):
    for cls, n in (('md5', MD5), ('backup', BACKUP), ('tmp', NAME + '.uncrustify'), ('source', NAME)):
        if '"' + n + '"' in rest:
            return cls
    return 'other'


def kill_locus(win, k):
    """Where in the protocol the kill lands: inside the rewrite of which file, or after which step."""
    open_w = None
    last = 'start'
    for _, name, occ, rest in win[:k]:
        if name == 'openat' and ('O_WRONLY' in rest or 'O_RDWR' in rest):
            open_w = file_class(rest)
            last = 'open-' + open_w
        elif name == 'close' and open_w:
            last = 'close-' + open_w
            open_w = None
        elif name in ('rename', 'unlink'):
            last = name
    if open_w:
        return 'while-%s-is-open-for-writing' % open_w
    return 'after-' + last


def _history(h):
    d = case_dir('c14')
    w = World(os.path.join(d, 'w'))
    os.makedirs(w.d)
    try:
        fired = True
        for op in h:
            if op[0] == 'w':
                w.write(op)
            elif op[0] == 'r':
                w.run(op)
            else:   # ('k', run op, index)
                if not w.kill(op[1], op[2]):
                    fired = False
                    break
            if w.probs:
                break
        return (h, fired, w.runs, w.changed, w.probs, w.log, w.kill_locus)
    finally:
        shutil.rmtree(d, ignore_errors=True)


def histories(tier):
    n = 4 if tier == 'quick' else 5
    ops = WRITES + RUNS
    out = []
    for length in range(2, n + 1):
        for rest in itertools.product(ops, repeat=length - 1):
            for first in ('wU', 'wFA'):
                h = (first,) + rest
                if not any(o[0] == 'r' for o in h):
                    continue
                out.append(h)
    # digest sweep: the protocol compares md5 texts; every byte position of the digest should meet small and large values
    for k in range(64 if tier == 'quick' else 512):
        out.append(('wV%d' % k, 'rA', 'rA'))
        if k % 4 == 0:
            out.append(('wV%d' % k, 'rB', 'rA', 'rAi'))
    kills = []
    prefixes = [('wU',), ('wU', 'rA'), ('wU', 'rA', 'wU2'), ('wFA',), ('wU', 'rB', 'rA')]
    suffixes = [('rA',), ('rB',), ('rA', 'rA'), ('wS', 'rA'), ('wU2', 'rA'), ('rAi', 'rB')]
    if tier != 'quick':
        suffixes += [('rB', 'rA', 'rB'), ('wU', 'rA', 'rB'), ('rBi', 'rA')]
    for p in prefixes:
        for kop in ('rA', 'rB'):
            for k in range(40):
                for s in suffixes:
                    kills.append(p + (('k', kop, k),) + s)
    return out, kills


def key_of(kind, h):
    """Root cause key: the violation kind plus the shape of the shortest history that shows it (ops without configs)."""
    return kind


def check(ctx):
    build.binary('plain')
    plain, kills = histories(ctx.tier)
    ctx.exhaustive = True
    ctx.rule = ('all histories up to length %d over {user writes U, U2, F_A(U), same-as-current; --replace with config A/B, with and without --if-changed} '
                'starting with a user write, plus histories containing one run killed (strace SIGKILL) at every syscall of its file-operation window; '
                'after every step the invariants of the backup protocol are checked on the directory; '
                'non-trivial = distinct history in which uncrustify changed the file at least once (and, for kill histories, the kill fired)' % (4 if ctx.tier == 'quick' else 5))
    first = {}
    for h, fired, runs, changed, probs, log, locus in pmap(_history, plain + kills):
        ctx.evaluations += runs
        is_kill = any(o[0] == 'k' for o in h)
        if not fired:
            ctx.count('kill_index_beyond_window')
            continue
        ctx.count('kill_histories' if is_kill else 'plain_histories')
        if changed:
            ctx.nt(h)
        for kind, desc in probs:
            ctx.count('viol_' + kind)
            k = kind + ('|kill-%s' % locus if is_kill else '')
            if is_kill:
                # what the user did between the killed run and the next one belongs to the root cause: a leftover that makes the next run
                # overwrite the backup is another defect than one that makes it skip the backup of a fresh edit
                ki = next(i for i, o in enumerate(h) if o[0] == 'k')
                nxt = h[ki + 1] if ki + 1 < len(h) else ''
                k += '|then-' + ('run' if nxt.startswith('r') else 'same-write' if nxt == 'wS' else 'edit')
            ctx.count('kill_locus_' + str(locus)) if is_kill else None
            if k not in first or len(h) < len(first[k][0]):
                first[k] = (h, desc, log)
    for k, (h, desc, log) in first.items():
        ctx.violation(k, 'shortest violating history %s: %s\n  log: %s' % (list(h), desc, ' ; '.join(log)),
                      files={'U.c': U, 'U2.c': U2, 'A.cfg': CFG['A'], 'B.cfg': CFG['B'], 'history.txt': repr(h) + '\n' + '\n'.join(log)})
    ctx.sample(dict(history=list(plain[len(plain) // 2]), checked_after_each_step=['I1 backup == last user text whenever file != last user text', 'I2 md5 file names md5(file) after a completed writing run']))
    ctx.sample(dict(history=[list(o) if isinstance(o, tuple) else o for o in kills[len(kills) // 2]]))
    ctx.assumptions += ['a user write that leaves the bytes unchanged, or restores exactly the bytes the last run left, does not start a new epoch (indistinguishable by content)',
                        'the invariants judged are the statement\'s clauses (I1, I2), not equality with one particular implementation of the protocol',
                        'kill = SIGKILL on syscall entry; kill positions beyond the window of that state are skipped and counted']
    ctx.require('plain_histories', 500)
    ctx.require('kill_histories', 300)
