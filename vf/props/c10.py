"""C10 - output depends only on (bytes, language, configuration, file name)."""
import os
import shutil
import subprocess

from .. import build, corpus, fmt, run
from ..common import REPO, case_dir, pmap, rng, sha

LEVEL = 'exploration'
# small files given ahead of the input in multi-file deliveries (each accepted on its own with exit 0)
COMPANIONS = [('zz_guard.h', b'#ifndef G_H\n#define G_H\nint g;\n#endif'),
              ('zz_cmt.c', b'int a;\n// ends in a comment'),
              ('zz_qt.cpp', b'void t()\n{\n\tconnect( m,\n\t         SIGNAL(s(QString)),\n\t         SLOT(d(QString)) );\n}\n')]
PROP = 'C10'

CONFIG_POOL = ['default', 'etc/ben.cfg', 'etc/linux.cfg', 'etc/kr-indent.cfg', 'etc/gnu-indent.cfg', 'etc/klaus.cfg',
               'etc/mono.cfg', 'etc/sun.cfg', 'etc/freebsd.cfg', 'etc/objc.cfg', 'etc/d.cfg', 'etc/amxmodx.cfg']
EXTRA_CFG = {
    'sorty': 'mod_sort_include=true\nmod_sort_using=true\nmod_sort_import=true\ninclude_category_0="in"\nnewlines=auto\nalign_with_tabs=true\nindent_with_tabs=1\n',
    'crlf': 'newlines=crlf\nutf8_bom=add\nnl_end_of_file=force\nnl_end_of_file_min=2\ncode_width=70\n',
}


def cfg_text(name):
    if name == 'default':
        return ''
    if name in EXTRA_CFG:
        return EXTRA_CFG[name]
    return open(os.path.join(REPO, name), encoding='utf-8', errors='replace').read()


def snapshot(d):
    out = {}
    for root, _, fns in os.walk(d):
        for fn in fns:
            p = os.path.join(root, fn)
            out[os.path.relpath(p, d)] = open(p, 'rb').read()
    return out


def _case(t):
    rel, lang, cfgname, with_asan, with_valgrind = t
    x = corpus.read(rel)
    K = cfg_text(cfgname)
    cfg = fmt.cfg_file(K)
    b = build.binary('plain')
    ext = corpus.ext_for(lang)
    name = 'in' + ext
    problems = []
    observed = []
    leftovers = []
    top = case_dir('c10')

    def fresh(tag):
        d = os.path.join(top, tag)
        os.makedirs(d)
        with open(os.path.join(d, name), 'wb') as f:
            f.write(x)
        return d

    try:
        # reference: -f -> stdout with -l
        d = fresh('ref')
        ref = run.run(b, ['-c', cfg, '-l', lang, '-f', name], cwd=d)
        ref_key = (ref.status, ref.stdout if ref.status == 0 else None)
        if ref.signal or ref.cpu_timeout:
            return (rel, cfgname, 'skip', [], [], False)

        def cmp(tag, status, data, expect=ref_key):
            observed.append(tag)
            got = (status, data if status == 0 else None)
            if expect[0] != 0:
                # refusal must be a refusal in every mode (status may legitimately differ only if both non-zero)
                if (status == 0):
                    problems.append('%s: exit 0 but reference refused with %s' % (tag, expect[0]))
                return
            if got != expect:
                problems.append('%s: status %s/%s, bytes %s' % (tag, status, expect[0],
                                                                 'equal' if got[1] == expect[1] else 'DIFFER (%s vs %s)' % (sha(got[1] or b''), sha(expect[1] or b''))))

        def created(tag, d, allowed):
            snap = snapshot(d)
            extra = sorted(set(snap) - set(allowed) - {name})
            if extra and ref_key[0] == 0:
                problems.append('%s: unexpected files %s' % (tag, extra))
            elif extra:
                # the input is refused (formatting fails): a temporary file left behind is outside this property (C13 records it)
                leftovers.append((tag, extra))
            return snap

        for lopt, ltag in ((['-l', lang], 'l'), ([], 'ext')):
            if not lopt and lang == 'OC+':
                pass
            # 1/2 stdin
            d = fresh('stdin' + ltag)
            if lopt:
                r = run.run(b, ['-c', cfg] + lopt, stdin=x, cwd=d)
                cmp('stdin -l', r.status, r.stdout)
                r = run.run(b, ['-c', cfg] + lopt + ['--assume', name], stdin=x, cwd=d)
                cmp('stdin -l --assume', r.status, r.stdout)
            else:
                r = run.run(b, ['-c', cfg, '--assume', name], stdin=x, cwd=d)
                cmp('stdin --assume', r.status, r.stdout)
            created('stdin', d, [])
            # 3 -f (without -l only here; with -l is the reference)
            if not lopt:
                d = fresh('f' + ltag)
                r = run.run(b, ['-c', cfg, '-f', name], cwd=d)
                cmp('-f (ext)', r.status, r.stdout)
            # 4 -f -o
            d = fresh('fo' + ltag)
            r = run.run(b, ['-c', cfg] + lopt + ['-f', name, '-o', 'out.txt'], cwd=d)
            s = created('-f -o', d, ['out.txt'])
            cmp('-f -o ' + ltag, r.status, s.get('out.txt'))
            # 5 positional
            d = fresh('pos' + ltag)
            r = run.run(b, ['-c', cfg] + lopt + [name], cwd=d)
            s = created('positional', d, [name + '.uncrustify'])
            cmp('positional ' + ltag, r.status, s.get(name + '.uncrustify'))
            # 6 prefix
            d = fresh('pre' + ltag)
            r = run.run(b, ['-c', cfg] + lopt + ['--prefix', 'outdir', name], cwd=d)
            s = created('--prefix', d, ['outdir/' + name])
            cmp('--prefix ' + ltag, r.status, s.get('outdir/' + name))
            # 7 suffix
            d = fresh('suf' + ltag)
            r = run.run(b, ['-c', cfg] + lopt + ['--suffix', '.new', name], cwd=d)
            s = created('--suffix', d, [name + '.new'])
            cmp('--suffix ' + ltag, r.status, s.get(name + '.new'))
            # 8 -F list
            d = fresh('F' + ltag)
            with open(os.path.join(d, 'list.txt'), 'w') as f:
                f.write(name + '\n')
            r = run.run(b, ['-c', cfg] + lopt + ['-F', 'list.txt'], cwd=d)
            s = created('-F', d, [name + '.uncrustify', 'list.txt'])
            cmp('-F list ' + ltag, r.status, s.get(name + '.uncrustify'))
            # 9 -F -
            d = fresh('Fs' + ltag)
            r = run.run(b, ['-c', cfg] + lopt + ['-F', '-'], stdin=(name + '\n').encode(), cwd=d)
            s = created('-F -', d, [name + '.uncrustify'])
            cmp('-F - ' + ltag, r.status, s.get(name + '.uncrustify'))
            # 9b the file is one of several in the list: positional and -F, after a companion that leaves the tokenizer in an odd state
            if lopt and ref_key[0] == 0 and lang in ('C', 'CPP', 'OC', 'OC+'):
                for cname, cdata in COMPANIONS:
                    d = fresh('multi' + ltag + cname)
                    with open(os.path.join(d, cname), 'wb') as f:
                        f.write(cdata)
                    r = run.run(b, ['-c', cfg] + lopt + [cname, name], cwd=d)
                    s = snapshot(d)
                    cmp('positional after ' + cname, r.status, s.get(name + '.uncrustify'))
                    d = fresh('multiF' + ltag + cname)
                    with open(os.path.join(d, cname), 'wb') as f:
                        f.write(cdata)
                    r = run.run(b, ['-c', cfg] + lopt + ['-F', '-'], stdin=(cname + '\n' + name + '\n').encode(), cwd=d)
                    s = snapshot(d)
                    cmp('-F - after ' + cname, r.status, s.get(name + '.uncrustify'))
            # 10 --replace
            d = fresh('rep' + ltag)
            r = run.run(b, ['-c', cfg] + lopt + ['--replace', name], cwd=d)
            s = created('--replace', d, [name + '.unc-backup~', name + '.unc-backup.md5~'])
            cmp('--replace ' + ltag, r.status, s.get(name))
            # 11 --no-backup
            d = fresh('nb' + ltag)
            r = run.run(b, ['-c', cfg] + lopt + ['--no-backup', name], cwd=d)
            s = created('--no-backup', d, [])
            cmp('--no-backup ' + ltag, r.status, s.get(name))
            # 12 -f X -o X
            d = fresh('same' + ltag)
            r = run.run(b, ['-c', cfg] + lopt + ['-f', name, '-o', name], cwd=d)
            s = created('-f X -o X', d, [name + '.unc-backup~', name + '.unc-backup.md5~'])
            cmp('-f X -o X ' + ltag, r.status, s.get(name))
        # observers on the -f mode
        obs = [(['-p', 'parsed.txt'], ['parsed.txt']), (['-L', 'A'], []), (['-L', '66'], []), (['-s'], []), (['-q'], []),
               (['-s', '-L', 'A'], []), (['-p', 'parsed.txt', '--debug-csv-format'], ['parsed.txt', 'parsed.txt.csv']),
               (['-p', 'parsed.txt', '-L', 'A', '-s', '-q'], ['parsed.txt']),
               (['--dump-steps', 'ds'], None), (['--tracking', 'space:track.html'], ['track.html'])]
        for i, (o, allowed) in enumerate(obs):
            d = fresh('obs%d' % i)
            r = run.run(b, ['-c', cfg, '-l', lang] + o + ['-f', name], cwd=d, cpu=60 if '-L' in o else None)
            if r.cpu_timeout or r.wall_timeout:
                # full logging of a large file is slow; a CPU-limit hit says nothing about the bytes (inconclusive, counted)
                observed.append('observer-timeout')
                continue
            if allowed is not None:
                created(' '.join(o), d, allowed)
            if o[0] == '--tracking':
                observed.append('tracking (status only)')
                if (r.status == 0) != (ref.status == 0):
                    problems.append('--tracking: status %s vs %s' % (r.status, ref.status))
                continue
            cmp('observer ' + ' '.join(o), r.status, r.stdout)
        # environment
        envs = [dict(LC_ALL='C.utf8'), dict(LC_ALL='POSIX'), dict(LC_ALL='xx_YY.UTF-8', LANG='de_DE'), dict(HOME=top, TZ='Asia/Tokyo'),
                dict(UNCRUSTIFY_VERIF_DUMP=os.path.join(top, 'hd.txt'), UNCRUSTIFY_VERIF_SPACE=os.path.join(top, 'hs.txt')),
                dict(MALLOC_PERTURB_='165'), dict(UNCRUSTIFY_CONFIG='/nonexistent.cfg')]
        for i, e in enumerate(envs):
            d = fresh('env%d' % i)
            r = run.run(b, ['-c', cfg, '-l', lang, '-f', name], cwd=d, env=e)
            cmp('env ' + ','.join(sorted(e)), r.status, r.stdout)
        # ASLR off / repeated
        d = fresh('aslr')
        r = run.run(b, ['-c', cfg, '-l', lang, '-f', name], cwd=d, prefix=['setarch', '-R'])
        cmp('setarch -R', r.status, r.stdout)
        r = run.run(b, ['-c', cfg, '-l', lang, '-f', name], cwd=d)
        cmp('repeat', r.status, r.stdout)
        # other cwd, absolute path in both
        d = fresh('abs')
        ap = os.path.join(d, name)
        r1 = run.run(b, ['-c', cfg, '-l', lang, '-f', ap], cwd=d)
        r2 = run.run(b, ['-c', cfg, '-l', lang, '-f', ap], cwd='/')
        cmp('cwd / (abs path)', r2.status, r2.stdout, (r1.status, r1.stdout if r1.status == 0 else None))
        if with_asan:
            d = fresh('asan')
            r = run.run(build.binary('asan'), ['-c', cfg, '-l', lang, '-f', name], cwd=d, kind='asan')
            if r.san_report:
                problems.append('asan binary: sanitizer report ' + run.san_locus(r.san_report))
            else:
                cmp('asan binary', r.status, r.stdout)
        vg = False
        if with_valgrind:
            d = fresh('vg')
            r = run.run(b, ['-c', cfg, '-l', lang, '-f', name], cwd=d, cpu=600,
                        prefix=['valgrind', '-q', '--error-exitcode=97', '--track-origins=yes'])
            vg = True
            if r.status == 97:
                problems.append('valgrind memcheck: ' + r.stderr.decode(errors='replace')[:1500])
            else:
                cmp('valgrind', r.status, r.stdout)
        nontrivial = ref.status == 0 and ref.stdout != x
        return (rel, cfgname, 'nontrivial' if nontrivial else ('same' if ref.status == 0 else 'refused'), problems, observed, vg)
    finally:
        shutil.rmtree(top, ignore_errors=True)


def check(ctx):
    build.binary('plain')
    build.binary('asan')
    quick = ctx.tier == 'quick'
    sr = rng(PROP, 'select')
    files = corpus.files()
    n = 400 if quick else 1345
    sel = sr.sample(files, min(n, len(files)))
    cfgs = CONFIG_POOL + sorted(EXTRA_CFG)
    n_vg = 16 if quick else 160
    tasks = []
    for i, (rel, lang) in enumerate(sel):
        tasks.append((rel, lang, sr.choice(cfgs), i % (4 if quick else 3) == 0, i < n_vg))
    ctx.rule = ('per (corpus file, config): one reference run (-f, -l) and ~60 variant runs (12 delivery modes x {-l, extension}, '
                '10 observer sets, 7 environments, ASLR off, repeat, other cwd, asan binary, valgrind sample); '
                'non-trivial = distinct (file, config) whose reference run exits 0 and changes the bytes')
    res = pmap(_case, tasks, chunksize=1)
    tags = set()
    for rel, cfgname, kind, problems, observed, vg in res:
        ctx.evaluations += len(observed) + 1
        ctx.count('inputs_' + kind)
        if vg:
            ctx.count('valgrind_runs')
        tags.update(observed)
        if kind == 'nontrivial':
            ctx.nt(rel, cfgname)
        for p in problems:
            tag = p.split(':')[0]
            ctx.violation('%s|%s|%s' % (tag, cfgname, rel), 'file tests/input/%s config %s: %s' % (rel, cfgname, p),
                          files={'input': corpus.read(rel), 'config.cfg': cfg_text(cfgname)})
    ctx.extra['variants_observed'] = sorted(tags)
    ctx.sample(dict(file=tasks[0][0], lang=tasks[0][1], config=tasks[0][2], variants=len(tags)))
    ctx.assumptions += ['file name is held constant (relative "in<ext>") across modes; for the cwd variant both runs use the same absolute path',
                        'only locales C, C.utf8, POSIX exist in the image; an uninstalled locale name is used as the fourth',
                        '--tracking changes what is written to stdout by design (html), so only its status is compared']
    ctx.require('inputs_nontrivial', 40)
