"""Language-agnostic input mutators (bytes -> bytes)."""

SPECIAL = [b'/*', b'*/', b'//', b'"', b"'", b'R"x(', b')x"', b'{', b'}', b'(', b')', b'[', b']', b'<', b'>',
           b'#if 1\n', b'#else\n', b'#endif\n', b'#define X \\\n', b'\\\n', b';', b',', b'::', b'->', b'@',
           b'template<', b'class ', b'namespace ', b'enum ', b'struct ', b'typedef ', b'operator', b'case ',
           b'else ', b'do ', b'while(', b'for(', b'if(', b'switch(', b'return ', b'?', b':', b'\x00', b'\xff',
           b'\xef\xbb\xbf', b'\r', b'\r\n', b'\t', b'\x0c', b'=', b'@interface ', b'@end\n', b'^{', b'[[', b']]',
           b'#pragma asm\n', b'/* *INDENT-OFF* */\n', b'/* *INDENT-ON* */\n', b'#', b'##', b'...', b'<<', b'>>']


def line_truncations(data):
    """All prefixes of data ending at a line boundary (excluding empty and full)."""
    out = []
    pos = 0
    while True:
        i = data.find(b'\n', pos)
        if i < 0 or i + 1 >= len(data):
            break
        out.append(i + 1)
        pos = i + 1
    return out


def mutate(data, r, n_ops=None):
    """Apply 1..4 random edits."""
    b = bytearray(data)
    n_ops = n_ops or r.randint(1, 4)
    for _ in range(n_ops):
        if not b:
            b = bytearray(r.choice(SPECIAL))
            continue
        op = r.randrange(10)
        i = r.randrange(len(b))
        j = min(len(b), i + r.choice([1, 1, 2, 3, 8, 40, 200]))
        if op == 0:      # delete slice
            del b[i:j]
        elif op == 1:    # duplicate slice
            b[i:i] = b[i:j]
        elif op == 2:    # insert special
            b[i:i] = r.choice(SPECIAL)
        elif op == 3:    # flip byte
            b[i] = r.randrange(256)
        elif op == 4:    # truncate
            del b[i:]
        elif op == 5:    # swap two slices
            k = r.randrange(len(b))
            l = min(len(b), k + (j - i))
            s1, s2 = bytes(b[i:j]), bytes(b[k:l])
            if i < k and j <= k:
                b[k:l] = s1
                b[i:j] = s2
            elif k < i and l <= i:
                b[i:j] = s2
                b[k:l] = s1
        elif op == 6:    # delete a whole line
            s = b.rfind(b'\n', 0, i) + 1
            e = b.find(b'\n', i)
            e = len(b) if e < 0 else e + 1
            del b[s:e]
        elif op == 7:    # remove one bracket char nearby
            for k in range(i, min(len(b), i + 400)):
                if b[k] in b'{}()[]':
                    del b[k]
                    break
        elif op == 8:    # replace slice with special
            b[i:j] = r.choice(SPECIAL)
        else:            # drop final newline / cut mid-token at the end
            while b and b[-1] in b'\r\n':
                b.pop()
            if b and r.random() < 0.5:
                b.pop()
    return bytes(b)


MALFORMED_TAILS = [b'/* unterminated', b'"unterminated', b"'u", b'R"x(raw', b'#if 1\nint a;\n', b'#define A \\', b'#define A \\\n',
                   b'{', b'(', b'[', b'}', b')', b']', b'<', b'template<', b'if (', b'else', b'do', b'for (;;', b'switch (a) { case',
                   b'struct {', b'enum {', b'a ? b', b'return', b'class A :', b'namespace {', b'@interface A', b'[a b:', b'^{',
                   b'//\\', b'// *INDENT-OFF*\n', b'#pragma asm\n', b'typedef', b'operator', b'goto', b'case 1', b'#', b'#include <', b'L"', b'u8R"(', b'\\']
