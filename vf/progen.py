"""Grammar-driven generators of compilable, block-structured programs (C, C++, Java); every choice comes from the given Random.

gen(lang, r, **kw) -> Program with .lines = [Line]: one statement / brace / label per line, each knowing its nesting (for C18),
and .render(...) -> bytes in a chosen brace style and indentation.  The programs only use declared int variables, call only
earlier functions, guard divisions, and avoid __LINE__/assert/stringification, so they compile and their object code cannot
depend on layout.
"""

BIN = ['+', '-', '*', '&', '|', '^', '<<', '>>', '==', '!=', '<', '>', '<=', '>=', '&&', '||']


class Line:
    __slots__ = ('depth', 'text', 'role', 'opener', 'in_switch', 'case_body', 'vdepth', 'fn', 'ns', 'cls', 'grp')

    def __init__(self, depth, text, role, opener=None, in_switch=0, case_body=0, vdepth=0):
        self.depth = depth          # number of enclosing real braces that indent (function body = 1)
        self.text = text
        self.role = role            # stmt | open | close | case | head (statement header whose '{' may follow on the same line)
        self.opener = opener        # for close: index of the line holding the statement that opened the block
        self.in_switch = in_switch  # number of enclosing switch bodies
        self.case_body = case_body  # number of enclosing case labels (statements under a label)
        self.vdepth = vdepth        # braceless nesting (virtual braces)
        self.fn = None
        self.ns = 0
        self.cls = 0
        self.grp = None


class G:
    def __init__(self, lang, r, depth_max=5, stmts=(2, 5), shapes='all', cpp_extras=True):
        self.lang, self.r, self.depth_max, self.stmts, self.shapes = lang, r, depth_max, stmts, shapes
        self.cpp_extras = cpp_extras
        self.nfun = 0
        self.ngrp = 0
        self.comments = False
        self.ncmt = 0
        self.budget = 60
        self.scope = []
        self.java = lang == 'JAVA'

    # ---- expressions (all of type int) -------------------------------------------------
    def atom(self):
        r = self.r
        k = r.random()
        v = r.choice(self.scope)
        if k < 0.45:
            return v
        if k < 0.65:
            return str(r.choice([0, 1, 2, 3, 7, 10, 31, 255, 1000]))
        if k < 0.72 and not self.java:
            return r.choice(['*p', '*p', 's0.a', 's0.b', 'arr[%s & 7]' % v, 'sp->b'])
        if k < 0.78 and not self.java:
            return r.choice(['0x1e', '0x1F', '1u', '10L', "'a'", "'\\t'", '(int)sizeof(int)', '(int)sizeof x'])
        if k < 0.82 and self.java:
            return r.choice(['0x1e', '10', "'a'", 'arr[%s & 7]' % v, 's0.a'])
        if k < 0.9 and self.nfun > 0:
            return 'f%d(%s, %s)' % (r.randrange(self.nfun), self.expr(1), self.expr(1))
        return '(%s)' % self.expr(1)

    def unary(self):
        r = self.r
        a = self.atom()
        k = r.random()
        if k < 0.6:
            return a
        if self.java:
            return r.choice(['-', '~', '+']) + ' ' * r.randint(0, 1) + a if not a.startswith(('-', '+')) else '(' + a + ')'
        op = r.choice(['-', '~', '!', '+', '- -', '!!', '-~'])
        if a[0] in '-+' or a.startswith('*'):
            a = '(' + a + ')' if a[0] in '-+' else a
        return op + a

    def expr(self, d=0):
        r = self.r
        if d >= 2 or r.random() < 0.3:
            return self.unary()
        k = r.random()
        if k < 0.7:
            op = r.choice(BIN)
            a, b = self.expr(d + 1), self.expr(d + 1)
            if self.java:
                a, b = ('(%s)' % a if ' ' in a else a), ('(%s)' % b if ' ' in b else b)
            if self.java and op in ('&&', '||', '==', '!=', '<', '>', '<=', '>='):
                return '((%s) %s (%s) ? 1 : 0)' % (a, '!=' if op in ('&&', '||') else op, b) if op in ('&&', '||') else '(%s %s %s ? 1 : 0)' % (a, op, b)
            if op in ('<<', '>>'):
                b = '(%s & 7)' % b
                a = '(%s & 0xff)' % a
            if op in ('&&', '||') and (('&&' in a or '||' in a) or ('&&' in b or '||' in b)):
                a, b = '(%s)' % a, '(%s)' % b
            if op in ('&', '|', '^', '==', '!=', '<', '>', '<=', '>=', '<<', '>>', '&&', '||') and r.random() < 0.8:
                a, b = ('(%s)' % a if ' ' in a else a), ('(%s)' % b if ' ' in b else b)
            return '%s %s %s' % (a, op, b)
        if k < 0.82:
            b = self.expr(d + 1)
            return '%s %s (%s | 1)' % (self.expr(d + 1), r.choice(['/', '%']), b)
        if k < 0.9:
            c = self.cond()
            return '(%s ? %s : %s)' % (c, self.expr(d + 1), self.expr(d + 1))
        if k < 0.96:
            return self.hazard()
        return '(%s)' % self.expr(d + 1)

    def hazard(self):
        r = self.r
        a, b = r.choice(self.lvals()), r.choice(self.lvals())
        if self.java:
            return r.choice(['%s - -%s' % (a, b), '%s + +%s' % (a, b), '%s - (-%s)' % (a, b)])
        shape = r.choice(['A / *p', 'A - -B', 'A + +B', 'A & *&B', 'A - (-B)', 'A * *p', 'A / (*p | 1)', '*p * *&B', 'A % (*p | 1)'])
        if shape in ('A / *p',):
            shape = 'A / (*p | 1)' if r.random() < 0.5 else 'A / *q1'
        return shape.replace('A', a).replace('B', b)

    def lvals(self):
        return [v for v in self.scope if v in ('x', 'y', 'z', 'a', 'b', 'i', 'g0', 'g1')] or ['x']

    def cond(self):
        r = self.r
        k = r.random()
        a, b = self.expr(1), self.expr(1)
        op = r.choice(['==', '!=', '<', '>', '<=', '>='])
        c = '%s %s %s' % (('(%s)' % a if ' ' in a else a), op, ('(%s)' % b if ' ' in b else b))
        if k < 0.25:
            a2, b2 = self.expr(2), self.expr(2)
            c = '%s %s (%s %s %s)' % ('(' + c + ')', r.choice(['&&', '||']), a2, r.choice(['<', '!=']), b2)
        return c

    # ---- statements -> list of Line -----------------------------------------------------
    def simple(self):
        r = self.r
        lv = r.choice(self.lvals())
        k = r.random()
        if k < 0.45:
            return '%s = %s;' % (lv, self.expr())
        if k < 0.6:
            return '%s %s %s;' % (lv, r.choice(['+=', '-=', '*=', '&=', '|=', '^=']), self.expr(1))
        if k < 0.7:
            return r.choice(['%s++;', '++%s;', '%s--;', '--%s;']) % lv
        if k < 0.8 and self.nfun > 0:
            return '%s = f%d(%s, %s);' % (lv, r.randrange(self.nfun), self.expr(1), self.expr(1))
        if k < 0.85 and not self.java:
            return r.choice(['*p = %s;' % self.expr(1), 's0.a = %s;' % self.expr(1), 'arr[%s & 7] = %s;' % (lv, self.expr(1)), 'p = &%s;' % r.choice(['x', 'y', 'z'])])
        if k < 0.9 and self.java:
            return r.choice(['arr[%s & 7] = %s;' % (lv, self.expr(1)), 's0.a = %s;' % self.expr(1)])
        return '%s = %s;' % (lv, self.expr())

    def block(self, out, depth, n=None, sw=0, cb=0, vd=0, nest=0, case_first=False, grp=None):
        r = self.r
        n = n if n is not None else r.randint(*self.stmts)
        if grp is None:
            self.ngrp += 1
            grp = self.ngrp
        for k in range(n):
            # a block directly after 'case X:' is uncrustify's "case brace" (own style options): not generated
            before = len(out)
            self.stmt(out, depth, sw, cb, vd, nest, no_block=(case_first and k == 0))
            # the first line a statement emits (and a comment in front of it) sits directly in this block
            for ln in out[before:]:
                if ln.grp is None and ln.depth == depth and ln.vdepth == vd and ln.case_body == cb and \
                        ln.role in ('stmt', 'head', 'comment', 'bare-open', 'head-else', 'do-while'):
                    ln.grp = grp

    def body(self, out, depth, sw, cb, vd, nest, head_idx, allow_vbrace=True):
        """Body of a control statement whose header is out[head_idx]."""
        r = self.r
        if allow_vbrace and r.random() < 0.3:
            # braceless single statement (virtual braces): one level deeper
            if nest + 1 < self.depth_max and r.random() < 0.35:
                self.stmt(out, depth, sw, cb, vd + 1, nest + 1, only_control=True)
            else:
                out.append(Line(depth, self.simple(), 'stmt', None, sw, cb, vd + 1))
            return False
        out.append(Line(depth, '{', 'open', head_idx, sw, cb, vd))
        self.block(out, depth + 1, None, sw, cb, vd, nest + 1)
        out.append(Line(depth, '}', 'close', head_idx, sw, cb, vd))
        return True

    def stmt(self, out, depth, sw, cb, vd, nest, only_control=False, no_block=False):
        r = self.r
        self.budget -= 1
        if self.comments and not only_control and r.random() < 0.08:
            self.ncmt += 1
            out.append(Line(depth, r.choice(['/* note %d */', '// note %d', '/* a\tb %d */']) % self.ncmt, 'comment', None, sw, cb, vd))
        deep = nest >= self.depth_max or self.budget <= 0
        k = r.random()
        if (deep and only_control) or ((deep or k < 0.45) and not only_control):
            out.append(Line(depth, self.simple(), 'stmt', None, sw, cb, vd))
            return
        kind = r.choice(['if', 'if', 'ifelse', 'ifelse', 'chain', 'for', 'while', 'do', 'switch', 'block', 'if1', 'if1', 'if1', 'dangle'] if not only_control else
                        ['if', 'for', 'ifelse'])
        if kind == 'block' and no_block:
            kind = 'if'
        if kind == 'block':
            hi = len(out)
            out.append(Line(depth, '{', 'open', hi, sw, cb, vd))
            out[-1].role = 'bare-open'
            self.block(out, depth + 1, None, sw, cb, vd, nest + 1)
            out.append(Line(depth, '}', 'close', hi, sw, cb, vd))
            return
        if kind == 'dangle':
            # 'if (a) <1-3 braceless loops> { if (b) x; } else y;' - the braces keep the else with the outer if
            hi = len(out)
            out.append(Line(depth, 'if (%s)' % self.cond(), 'head', None, sw, cb, vd))
            v = vd
            for _ in range(r.randint(1, 3)):
                v += 1
                out.append(Line(depth, r.choice(['for (i = 0; i < 3; i++)', 'while (k1-- > 0)', 'for (i = 2; i > 0; i--)']), 'head', None, sw, cb, v))
            lp = len(out) - 1
            out.append(Line(depth, '{', 'open', lp, sw, cb, v))
            out.append(Line(depth + 1, 'if (%s)' % self.cond(), 'head', None, sw, cb, v))
            out.append(Line(depth + 1, self.simple(), 'stmt', None, sw, cb, v + 1))
            out.append(Line(depth, '}', 'close', lp, sw, cb, v))
            hj = len(out)
            out.append(Line(depth, 'else', 'head-else', hi, sw, cb, vd))
            if r.random() < 0.5:
                out.append(Line(depth, self.simple(), 'stmt', None, sw, cb, vd + 1))
            else:
                out.append(Line(depth, '{', 'open', hj, sw, cb, vd))
                out.append(Line(depth + 1, self.simple(), 'stmt', None, sw, cb, vd))
                out.append(Line(depth, '}', 'close', hj, sw, cb, vd))
            return
        if kind == 'if1':
            # braces around a single nested control statement (what the brace-removal options look for)
            hi = len(out)
            out.append(Line(depth, 'if (%s)' % self.cond(), 'head', None, sw, cb, vd))
            out.append(Line(depth, '{', 'open', hi, sw, cb, vd))
            self.ngrp += 1
            g1 = self.ngrp
            before = len(out)
            self.stmt(out, depth + 1, sw, cb, vd, nest + 1, only_control=True)
            out[before].grp = g1
            out.append(Line(depth, '}', 'close', hi, sw, cb, vd))
            return
        if kind in ('if', 'ifelse', 'chain'):
            hi = len(out)
            out.append(Line(depth, 'if (%s)' % self.cond(), 'head', None, sw, cb, vd))
            braced = self.body(out, depth, sw, cb, vd, nest, hi, allow_vbrace=(kind == 'if'))
            if kind == 'chain':
                for _ in range(r.randint(1, 2)):
                    hj = len(out)
                    out.append(Line(depth, 'else if (%s)' % self.cond(), 'head-else', hi, sw, cb, vd))
                    self.body(out, depth, sw, cb, vd, nest, hj, allow_vbrace=False)
            if kind in ('ifelse', 'chain'):
                hj = len(out)
                out.append(Line(depth, 'else', 'head-else', hi, sw, cb, vd))
                self.body(out, depth, sw, cb, vd, nest, hj, allow_vbrace=False)
            return
        if kind == 'for':
            hi = len(out)
            out.append(Line(depth, 'for (i = 0; i < %s; i++)' % r.choice(['3', '(x & 3)', '4']), 'head', None, sw, cb, vd))
            self.body(out, depth, sw, cb, vd, nest, hi)
            return
        if kind == 'while':
            hi = len(out)
            v = r.choice(['k1', 'k2'])
            out.append(Line(depth, '%s = %d;' % (v, r.randint(1, 3)), 'stmt', None, sw, cb, vd))
            hi = len(out)
            out.append(Line(depth, 'while (%s-- > 0)' % v, 'head', None, sw, cb, vd))
            self.body(out, depth, sw, cb, vd, nest, hi, allow_vbrace=not only_control)
            return
        if kind == 'do':
            hi = len(out)
            v = r.choice(['k1', 'k2'])
            out.append(Line(depth, '%s = %d;' % (v, r.randint(1, 3)), 'stmt', None, sw, cb, vd))
            hi = len(out)
            out.append(Line(depth, 'do', 'head', None, sw, cb, vd))
            out.append(Line(depth, '{', 'open', hi, sw, cb, vd))
            self.block(out, depth + 1, None, sw, cb, vd, nest + 1)
            out.append(Line(depth, '}', 'close-do', hi, sw, cb, vd))
            out.append(Line(depth, 'while (%s-- > 0);' % v, 'do-while', hi, sw, cb, vd))
            return
        if kind == 'switch':
            hi = len(out)
            out.append(Line(depth, 'switch (%s & 3)' % r.choice(self.lvals()), 'head', None, sw, cb, vd))
            out.append(Line(depth, '{', 'open', hi, sw, cb, vd))
            labels = r.sample([0, 1, 2, 3], r.randint(1, 3))
            self.ngrp += 1
            sgrp = self.ngrp
            for li, lab in enumerate(labels):
                out.append(Line(depth, 'case %d:' % lab, 'case', hi, sw + 1, cb, vd))
                if r.random() < 0.2 and li + 1 < len(labels):
                    continue            # fall-through label pair
                self.block(out, depth, r.randint(1, 3), sw + 1, cb + 1, vd, nest + 1, case_first=True, grp=sgrp)
                if r.random() < 0.85:
                    out.append(Line(depth, 'break;', 'stmt', None, sw + 1, cb + 1, vd))
                    out[-1].grp = sgrp
            if r.random() < 0.7:
                out.append(Line(depth, 'default:', 'case', hi, sw + 1, cb, vd))
                self.block(out, depth, r.randint(1, 2), sw + 1, cb + 1, vd, nest + 1, case_first=True, grp=sgrp)
                out.append(Line(depth, 'break;', 'stmt', None, sw + 1, cb + 1, vd))
                out[-1].grp = sgrp
            out.append(Line(depth, '}', 'close', hi, sw, cb, vd))
            return


class Program:
    def __init__(self, lang, lines, header_lines=0):
        self.lang = lang
        self.lines = lines

    def render(self, r=None, style='allman', indent=3, random_indent=False, tabs=False):
        """-> (bytes, [index into self.lines for every physical line]).  style: allman (every '{' on its own line) | kr ('{' of a
        control statement on the header line, '} else' joined) | mixed (per construct, needs r)."""
        out = []
        idx = []
        L = self.lines
        i = 0
        while i < len(L):
            ln = L[i]
            text = ln.text
            use = i
            join_next_open = False
            if ln.role in ('head', 'head-else') and i + 1 < len(L) and L[i + 1].role == 'open':
                st = style if style != 'mixed' else r.choice(['allman', 'kr'])
                if st == 'kr':
                    join_next_open = True
            w = (ln.depth + ln.vdepth + ln.case_body) * indent
            if random_indent:
                w = r.randint(1 if ln.role == 'comment' else 0, 30)
            if ln.role == 'comment' and w == 0:
                w = 1           # a comment in column 1 is kept there by design (indent_col1_comment): never generated
            lead = ' ' * w
            if tabs and r is not None and r.random() < 0.5:
                lead = '\t' * (w // 8) + ' ' * (w % 8)
            if join_next_open:
                out.append(lead + text + ' {')
                idx.append(i)
                i += 2
                continue
            out.append(lead + text)
            idx.append(use)
            i += 1
        return ('\n'.join(out) + '\n').encode(), idx


def gen(lang, r, nfuncs=(2, 4), depth_max=5, stmts=(2, 5), budget=50, comments=False):
    """-> Program.  Function headers, declarations and braces are Lines too."""
    g = G(lang, r, depth_max, stmts)
    g.comments = comments
    L = []
    nf = r.randint(*nfuncs)
    if lang == 'JAVA':
        L.append(Line(0, 'class S', 'head'))
        L.append(Line(0, '{', 'open', 0))
        L.append(Line(0, 'int a;', 'stmt'))
        L.append(Line(0, 'int b;', 'stmt'))
        L[-1].cls = L[-2].cls = 1
        L.append(Line(0, '}', 'close', 0))
        ci = len(L)
        L.append(Line(0, 'public class Gen', 'head'))
        L.append(Line(0, '{', 'open', ci))
        base = 0
        L.append(Line(0, 'static int g0 = 1;', 'stmt'))
        L.append(Line(0, 'static int g1 = 2;', 'stmt'))
        L.append(Line(0, 'static int[] arr = new int[8];', 'stmt'))
        L.append(Line(0, 'static S s0 = new S();', 'stmt'))
    else:
        base = 0
        if lang == 'C':
            L.append(Line(0, '#include <stdbool.h>', 'pp'))
        L.append(Line(0, 'struct S', 'head'))
        L.append(Line(0, '{', 'open', len(L) - 1))
        L.append(Line(1, 'int a;', 'stmt'))
        L.append(Line(1, 'int b;', 'stmt'))
        L.append(Line(0, '};', 'close', len(L) - 4))
        L.append(Line(0, 'static struct S s0;', 'stmt'))
        L.append(Line(0, 'static int g0 = 1;', 'stmt'))
        L.append(Line(0, 'static int g1 = 2;', 'stmt'))
        L.append(Line(0, 'static int arr[8];', 'stmt'))
        L.append(Line(0, 'static int q0 = 3;', 'stmt'))
        L.append(Line(0, 'static int *q1 = &q0;', 'stmt'))
    ns = lang == 'CPP' and r.random() < 0.5
    nsi = None
    if ns:
        nsi = len(L)
        L.append(Line(base, 'namespace n1', 'head-ns'))
        L.append(Line(base, '{', 'open-ns', nsi))
    for f in range(nf):
        g.nfun = f
        g.budget = budget
        g.scope = ['a', 'b', 'x', 'y', 'z', 'g0', 'g1', 'i']
        hi = len(L)
        if lang == 'JAVA':
            L.append(Line(base, 'static int f%d(int a, int b)' % f, 'head-fn'))
        else:
            L.append(Line(base, '%sint f%d(int a, int b)' % ('' if (ns or f == nf - 1) else 'static ', f), 'head-fn'))
        L.append(Line(base, '{', 'open', hi))
        d = base + 1
        for decl in (['int x = a;', 'int y = b;', 'int z = 1;', 'int i = 0;', 'int k1 = 0;', 'int k2 = 0;'] +
                     ([] if lang == 'JAVA' else ['int *p = &x;', 'struct S *sp = &s0;'])):
            L.append(Line(d, decl, 'stmt'))
        body = []
        g.block(body, d, r.randint(3, 6))
        off = len(L)
        for ln in body:
            if ln.opener is not None:
                ln.opener += off
            L.append(ln)
        L.append(Line(d, 'return x + y + z + i + k1 + k2%s;' % ('' if lang == 'JAVA' else ' + *p + sp->a'), 'stmt'))
        L.append(Line(base, '}', 'close', hi))
    if ns:
        for ln in L[nsi + 2:]:
            ln.ns = 1
        L.append(Line(base, '}', 'close-ns', nsi))
    if lang == 'JAVA':
        for ln in L[ci + 2:]:
            ln.cls = 1
        L.append(Line(0, '}', 'close', ci))
    # fix opener indices of the body-local lines: block() used indices relative to its own list
    return Program(lang, L)


# ---------------------------------------------------------------------------------------------
# hand-written, compile-checked preambles that carry the constructs the code-modifying options look for

HEADERS = {'h_zeta.h': b'#ifndef H_ZETA\n#define H_ZETA\nextern int h_zeta;\n#endif\n',
           'h_alpha.h': b'#ifndef H_ALPHA\n#define H_ALPHA\nextern int h_alpha;\n#endif\n',
           'h_mid.h': b'#ifndef H_MID\n#define H_MID\nextern int h_mid;\n#endif\n'}

C_PREAMBLE = b'''#include <stdbool.h>
#include "h_zeta.h"
#include "h_alpha.h"
#include "h_mid.h"
#include "h_alpha.h"
#define SQ(x) ((x) * (x))
#define ADD3(a, b, c) \\
   ((a) + \\
    (b) + (c))
#define EMPTY
#define MIX(a, b) a ^ b < 4
#define TRI(a, b) a > b ? a ^ 1 : b << 2
#define AMP(a, b) a & b && a | b
#define NEG(a) - a * ~ a
#if 0
this branch is never compiled , it may hold anything ( { [ ] } ) ...
#else
enum color { RED, GREEN = 5, BLUE, };
#endif
enum plain { P_A, P_B };
typedef unsigned int uint_t;
typedef int (*fn_t)(int, int);
struct bits { unsigned int lo : 3; unsigned hi : 5; signed int mid : 4; };
static unsigned short int us1 = 1;
static long int li1 = 2;
static unsigned long long int ull1 = 3;
static short ss1 = 4;
static long unsigned lu1 = 5;
static const char *str1 = "a\\tb /* not a comment */ // neither";
static const char chr1 = '\\'';
static int neg(int v) { return -v; };
static int sel(int c, int a, int b)
{
   if (c) return a; else return (b);
}
static void nothing(int *o)
{
   *o = 1;;
   return;
}
static int loops(int n)
{
   int t = 0;
   while (1) { if (++t > n) break; }
   for (;;) { if (--t < 0) break; }
   do { t += 2; } while (t < 4);
   return (t);
}
static int calls(fn_t f, int a)
{
   struct bits bb = { 1, 2, 3 };
   int arr2[3] = { [0] = 1, [2] = a };
   nothing(&a);
   return f(SQ(a), ADD3(1, 2, a)) + (MIX(a, 1)) + (TRI(a, 2)) + (AMP(a, 3)) + (NEG(a)) + bb.lo + arr2[2] + (int)sizeof(struct bits) + neg(-a) + sel(a > 1 && a < 9, a, 2) + loops(3)
          + (int)us1 + (int)li1 + (int)ull1 + ss1 + (int)lu1 + str1[0] + chr1 + RED + P_B;
}
'''

CPP_PREAMBLE = b'''#include "h_zeta.h"
#include "h_alpha.h"
#include "h_mid.h"
#define SQ(x) ((x) * (x))
#define MIX(a, b) a ^ b < 4
#define TRI(a, b) a > b ? a ^ 1 : b << 2
#if 0
never compiled ( ( { ; } ) ) ::
#endif
namespace pre {
enum class Mode : int { Off, On = 3, };
template<typename T> struct Box { T v; Box(T x) : v(x) {} T get() const { return v; } };
template<typename T, typename U> static T conv(U u) { return static_cast<T>(u); }
class Base { public: virtual ~Base() {} virtual int id() const { return 1; } };
class Der : public Base
{
public:
   Der(int a, int b) : m_a(a), m_b(b) {}
   int id() const override { return m_a + m_b; }
   int operator()(int x) const { return x * m_a; }
private:
   int m_a;
   int m_b;
};
static unsigned long int total(const Box<Box<int>> &bb, int n)
{
   auto lam = [&](int z) -> int { return z + bb.get().get(); };
   int acc = 0;
   int vals[3] = { 1, 2, n };
   for (auto &v : vals) { acc += lam(v); }
   while (true) { if (++acc > 100) break; }
   if (n > 2 && n < 50) acc -= 1; else acc += 1;
   return (conv<unsigned long>(acc >> 1));
}
static int use(int n)
{
   Der d(n, 2);
   Box<Box<int>> bb{Box<int>(n)};
   const Base &b = d;
   return b.id() + d(3) + static_cast<int>(total(bb, n)) + static_cast<int>(Mode::On) + SQ(n) + (MIX(n, 1)) + (TRI(n, 2));
}
}
'''

OC_PREAMBLE = b'''#include <stdbool.h>
#import "h_zeta.h"
#import "h_alpha.h"
#define SQ(x) ((x) * (x))
#define MIX(a, b) a ^ b < 4
#define TRI(a, b) a > b ? a ^ 1 : b << 2
__attribute__((objc_root_class))
@interface Root
+ (id)alloc;
- (id)init;
@end
@protocol Sized
- (int)area;
@end
@interface Shape : Root <Sized>
{
   int _w;
   int _h;
   int _tag;
}
@property (nonatomic, assign) int tag;
- (id)initWithW:(int)w h:(int)h;
- (int)scale:(int)k by:(int)m;
+ (int)count;
@end
@implementation Shape
@synthesize tag = _tag;
- (id)initWithW:(int)w h:(int)h
{
   self = [super init];
   if (self) { _w = w; _h = h; }
   return self;
}
- (int)area { return _w * _h; }
- (int)scale:(int)k by:(int)m
{
   int (^blk)(int) = ^(int z) { return z * k + m; };
   while (1) { if (++k > 10) break; }
   return (blk([self area]) + self.tag);
}
+ (int)count { return 3; }
@end
int use_shape(int n)
{
   Shape *s = [[Shape alloc] initWithW:n h:2];
   s.tag = SQ(n) + (MIX(n, 1)) + (TRI(n, 2));
   SEL sel = @selector(scale:by:);
   (void)sel;
   if (n > 2 && n < 9) n++; else n--;
   return [s scale:n by:[Shape count]] + [s area] + [[Shape alloc] initWithW:1 h:[s area]].tag;
}
'''

JAVA_PREAMBLE = b'''import java.util.List;
import java.util.ArrayList;
import java.util.Map;

'''

JAVA_MEMBERS = b'''   static int pre(int n)
   {
      List<Integer> l = new ArrayList<Integer>();
      l.add(n);
      int acc = 0;
      for (int v : l) { acc += v; }
      while (true) { if (++acc > 100) break; }
      if (n > 2 && n < 50) acc -= 1; else acc += 1;
      try { acc += l.get(0); } catch (RuntimeException e) { acc = -1; } finally { acc++; }
      synchronized (l) { acc ^= 3; }
      return (acc);
   }
'''


def program_text(lang, r, style='mixed', **kw):
    """A complete compilable program: preamble + generated functions.  -> bytes"""
    P = gen('C' if lang == 'OC' else lang, r, **kw)
    body, _ = P.render(r, style=style, indent=r.choice([0, 2, 3, 4, 8]))
    if lang == 'C':
        return C_PREAMBLE + body.replace(b'#include <stdbool.h>\n', b'', 1)
    if lang == 'CPP':
        return CPP_PREAMBLE + body
    if lang == 'OC':
        return OC_PREAMBLE + body.replace(b'#include <stdbool.h>\n', b'', 1)
    if lang == 'JAVA':
        # members of the preamble go inside class Gen, right after its opening brace
        marker = b'public class Gen'
        i = body.index(marker)
        j = body.index(b'{', i) + 1
        return JAVA_PREAMBLE + body[:j] + b'\n' + JAVA_MEMBERS + body[j:]
    raise ValueError(lang)


INACTIVE_UNBALANCED = b'''#if 0
an inactive branch may hold anything ( {
#endif
int active_code(int a)
{
   return a + 1;
}
'''

INACTIVE_GARBAGE = b'''#if 0
an inactive branch may hold any character: ` $ @
#endif
int active_code2(int a)
{
   return a + 2;
}
'''


# ---------------------------------------------------------------------------------------------
# hand-written hosts: every shape a code-modifying pass looks for, repeated in every nesting context in which the parser's
# bookkeeping differs (plain function body; body inside parentheses - lambda / block / statement expression as a call argument;
# body inside a preprocessor branch; member function of a class in a namespace)

C_SHAPES = '''
   switch (k & 3)
   {
   case 1:
   {
      int y = k * 2;
      sink(y);
      r = y;
      break;
   }
   case 2:
   {
      int y = k + 40;
      sink(y);
      r = y + 1;
      break;
   }
   default:
   {
      r = -1;
      break;
   }
   }
   switch (r & 1)
   {
   case 0: { r += 1; }
      break;
   case 1: { r += 2; break; }
   }
   if (k > 1) { if (k > 2) r++; } else { r--; }
   if (k > 3) { r += 2; } else if (k > 4) { r += 3; } else { r += 4; }
   if (k > 5) r += 5; else r += 6;
   if (k > 6) { int t = k; sink(t); }
   if (k > 7)
   {
      for (k = 0; k < 3; k++)
         if (r > k) r -= k;
   }
   else
      r ^= 1;
   while (1) { if (++r > 50) break; }
   for (;;) { if (--r < 0) break; }
   do { r += 2; } while (r < 4);
   for (k = 0; k < 3; k++) { r += k; }
   while (k-- > 0) r++;
   { int t = 3; r += t; }
   {
      unsigned short int us = 1; long int li = 2; unsigned u = 3; short ss = 4; long unsigned lu = 5;
      enum { LA, LB = 5, LC, };
      r += (int)us + (int)li + (int)u + ss + (int)lu + LB;;
   }
'''

JAVA_SHAPES = '''
      switch (k & 3)
      {
      case 1:
      {
         int y = k * 2;
         sink(y);
         r = y;
         break;
      }
      case 2:
      {
         int y = k + 40;
         sink(y);
         r = y + 1;
         break;
      }
      default:
      {
         r = -1;
         break;
      }
      }
      switch (r & 1)
      {
      case 0: { r += 1; }
         break;
      case 1: { r += 2; break; }
      }
      if (k > 1) { if (k > 2) r++; } else { r--; }
      if (k > 3) { r += 2; } else if (k > 4) { r += 3; } else { r += 4; }
      if (k > 5) r += 5; else r += 6;
      if (k > 6) { int t = k; sink(t); }
      if (k > 7)
      {
         for (k = 0; k < 3; k++)
            if (r > k) r -= k;
      }
      else
         r ^= 1;
      while (true) { if (++r > 50) break; }
      for (;;) { if (--r < 0) break; }
      do { r += 2; } while (r < 4);
      for (k = 0; k < 3; k++) { r += k; }
      while (k-- > 0) r++;
      { int t = 3; r += t; }
'''


def mod_hosts():
    """-> [(name, lang, bytes)]; all compile (checked by the monitors that use them: a host the compiler rejects is a harness error)."""
    S = C_SHAPES
    c_head = '#include <stdbool.h>\nextern void sink(int v);\nstatic int wrap(int a, int b) { return a + b; }\n'
    hosts = []
    hosts.append(('c-plain', 'C', c_head + 'int host(int k)\n{\n   int r = 0;\n' + S + '   return (r);\n}\n'))
    hosts.append(('c-stmt-expr-arg', 'C', c_head + 'int host(int k)\n{\n   return wrap(({\n   int r = 0;\n' + S + '   r;\n}), k);\n}\n'))
    hosts.append(('c-pp-branch', 'C', c_head + 'int host(int k)\n{\n   int r = 0;\n#if 1\n' + S + '#else\n   r = 2;\n#endif\n   return (r);\n}\n'))
    cpp_head = ('extern void sink(int v);\ntemplate<typename F> static int apply(F f, int k) { return f(k); }\n')
    hosts.append(('cpp-plain', 'CPP', cpp_head + 'int host(int k)\n{\n   int r = 0;\n' + S + '   return (r);\n}\n'))
    hosts.append(('cpp-lambda-arg', 'CPP', cpp_head + 'int host(int q)\n{\n   return apply([&](int k) {\n   int r = q;\n' + S + '   return (r);\n}, q);\n}\n'))
    hosts.append(('cpp-method-in-ns', 'CPP', cpp_head + 'namespace n1 {\nclass K\n{\npublic:\n   int host(int k) const\n   {\n   int r = 0;\n' + S +
                  '   return (r);\n   }\n};\n}\nint use(int k) { n1::K o; return o.host(k); }\n'))
    hosts.append(('cpp-lambda-in-init', 'CPP', cpp_head + 'int host(int q)\n{\n   int out = apply([=](int k) -> int {\n   int r = q;\n' + S + '   return (r);\n}, q + 1);\n   return out;\n}\n'))
    oc_head = ('#include <stdbool.h>\nextern void sink(int v);\nstatic int apply_blk(int (^b)(int), int k) { return b(k); }\n'
               '__attribute__((objc_root_class))\n@interface Root\n+ (id)alloc;\n- (id)init;\n@end\n@interface Host : Root\n- (int)run:(int)k;\n- (int)runBlock:(int)q;\n@end\n')
    hosts.append(('oc-method-and-block-arg', 'OC', oc_head + '@implementation Host\n- (int)run:(int)k\n{\n   int r = 0;\n' + S + '   return (r);\n}\n'
                  '- (int)runBlock:(int)q\n{\n   return apply_blk(^(int k) {\n   int r = q;\n' + S + '   return (r);\n}, q);\n}\n@end\n'))
    J = JAVA_SHAPES
    hosts.append(('java-plain-lambda-anon', 'JAVA',
                  'interface Fn { int call(int n); }\n'
                  'public class Gen\n{\n   static void sink(int v) { }\n   static int apply(Fn f, int k) { return f.call(k); }\n'
                  '   static int host(int k)\n   {\n      int r = 0;\n' + J + '      return (r);\n   }\n'
                  '   static int hostLambda(int q)\n   {\n      return apply((k0) -> {\n      int k = k0;\n      int r = 0;\n' + J + '      return (r);\n      }, q);\n   }\n'
                  '   static int hostAnon(int q)\n   {\n      return apply(new Fn() {\n         public int call(int k0)\n         {\n      int k = k0;\n      int r = 0;\n' + J +
                  '      return (r);\n         }\n      }, q);\n   }\n}\n'))
    return [(n, l, t.encode()) for n, l, t in hosts]
