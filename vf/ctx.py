"""Per-check context: counters, samples, violations, known-findings matching, evidence, exit code."""
import json
import os
import re
import shutil
import sys
import time
from collections import Counter

from .common import EVIDENCE_DIR, REPLAYS, VERIF, seed, sha, log

KNOWN = os.path.join(VERIF, 'known_findings.json')


class Inconclusive(Exception):
    """Harness failure / too little observed: exit 2."""


class Ctx:
    def __init__(self, prop, tier, level):
        self.prop = prop
        self.tier = tier
        self.level = level
        self.t0 = time.time()
        self.evaluations = 0
        self.nontrivial = set()
        self.counters = Counter()
        self.samples = []
        self.violations = []      # dicts: key, desc, files
        self.assumptions = []
        self.rule = ''
        self.extra = {}
        self.exhaustive = None
        self.minimums = []        # (counter name, minimum)
        self.notes = []
        shutil.rmtree(os.path.join(REPLAYS, prop), ignore_errors=True)

    # -- observation -------------------------------------------------------
    def count(self, name, n=1):
        self.counters[name] += n

    def nt(self, *ident):
        """Register one distinct non-trivial case."""
        self.nontrivial.add(sha(repr(ident)))

    def sample(self, obj, limit=6):
        if len(self.samples) < limit:
            self.samples.append(obj)

    def require(self, counter, minimum):
        self.minimums.append((counter, minimum))

    # -- violations ----------------------------------------------------------
    def violation(self, key, desc, files=None, argv=None):
        """key: root-cause key (stable across seeds); files: {name: bytes|str} for the replay dir."""
        self.violations.append(dict(key=key, desc=desc, files=files or {}, argv=argv))

    def _load_known(self):
        try:
            with open(KNOWN) as f:
                d = json.load(f)
        except FileNotFoundError:
            return []
        return [x for x in d.get('findings', []) if x.get('property') == self.prop]

    @staticmethod
    def _matches(finding, key):
        if 'key' in finding and finding['key'] == key:
            return True
        if 'keys' in finding and key in finding['keys']:
            return True
        if 'key_re' in finding and re.fullmatch(finding['key_re'], key):
            return True
        return False

    def _write_replay(self, v):
        d = os.path.join(REPLAYS, self.prop, sha(v['key']))
        if os.path.isdir(d):
            shutil.rmtree(d, ignore_errors=True)
        os.makedirs(d, exist_ok=True)
        for name, data in v['files'].items():
            if data is None:
                continue
            if isinstance(data, str):
                data = data.encode('utf-8', 'surrogateescape')
            with open(os.path.join(d, name), 'wb') as f:
                f.write(data)
        with open(os.path.join(d, 'violation.json'), 'w') as f:
            json.dump(dict(property=self.prop, key=v['key'], desc=v['desc'], argv=v['argv'],
                           seed=seed(), tier=self.tier), f, indent=1)
        if v['argv']:
            with open(os.path.join(d, 'replay.sh'), 'w') as f:
                f.write('#!/bin/sh\n# run from this directory\n' + ' '.join("'%s'" % a.replace("'", "'\\''") for a in v['argv']) + '\n')
        return d

    # -- finish -----------------------------------------------------------------
    def finish(self):
        known = self._load_known()
        seen_known = Counter()
        new = {}
        for v in self.violations:
            hit = None
            for i, k in enumerate(known):
                if self._matches(k, v['key']):
                    hit = i
                    break
            if hit is not None:
                seen_known[hit] += 1
            else:
                new.setdefault(v['key'], v)
        short = [c for c, m in self.minimums if self.counters[c] < m]
        cov = dict(evaluations=int(self.evaluations), distinct_nontrivial=len(self.nontrivial),
                   rule=self.rule, samples=self.samples or ['(none)'],
                   counters=dict(self.counters),
                   known_findings_observed={known[i].get('id', str(i)): n for i, n in seen_known.items()},
                   new_violation_keys=sorted(new)[:50])
        if self.exhaustive is not None:
            cov['exhaustive'] = self.exhaustive
        cov.update(self.extra)
        ev = dict(property_id=self.prop, tier=self.tier, seed=seed(), level=self.level, coverage=cov,
                  assumptions=self.assumptions, wall_s=round(time.time() - self.t0, 2),
                  violations=len(new))
        if self.notes:
            ev['notes'] = self.notes
        os.makedirs(EVIDENCE_DIR, exist_ok=True)
        with open(os.path.join(EVIDENCE_DIR, self.prop + '.json'), 'w') as f:
            json.dump(ev, f, indent=1, default=str)
            f.write('\n')
        for i, k in enumerate(known):
            n = seen_known.get(i, 0)
            print('KNOWN-FINDING: property=%s %s [%s; %s]' % (
                self.prop, k.get('what', k.get('key', k.get('key_re', ''))), k.get('id', i),
                'observed %d time(s) in this run' % n if n else 'not reached by this run'))
        for key, v in sorted(new.items()):
            d = self._write_replay(v)
            print('VIOLATION property=%s replay=%s' % (self.prop, d))
            print('  key: %s\n  %s' % (key, v['desc'][:2000]))
        summary = '%s %s seed=%d: evaluations=%d nontrivial=%d violations=%d known=%d wall=%.1fs' % (
            self.prop, self.tier, seed(), self.evaluations, len(self.nontrivial), len(new),
            sum(seen_known.values()), time.time() - self.t0)
        print(summary)
        for c, n in sorted(self.counters.items()):
            print('  %-44s %d' % (c, n))
        sys.stdout.flush()
        if new:
            return 1
        if short:
            print('INCONCLUSIVE: too little observed: ' + ', '.join(
                '%s=%d<%d' % (c, self.counters[c], m) for c, m in self.minimums if c in short))
            return 2
        if len(self.nontrivial) < 2 or self.evaluations < 1:
            print('INCONCLUSIVE: fewer than 2 distinct non-trivial cases')
            return 2
        return 0
