"""Runtime-monitoring framework for the uncrustify properties C01..C20 (stdlib only)."""
