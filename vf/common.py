"""Paths, seeded random streams, parallel map, scratch directories."""
import hashlib
import os
import random
import shutil
import sys
import tempfile
import time
from concurrent.futures import ProcessPoolExecutor

VERIF = os.path.dirname(os.path.dirname(os.path.abspath(__file__)))
REPO = os.environ.get('VERIF_REPO', '/repo')
CACHE = os.path.join(VERIF, '.cache')
EVIDENCE_DIR = os.path.join(VERIF, 'evidence')
REPLAYS = os.path.join(VERIF, 'replays')
JOBS = int(os.environ.get('VERIF_JOBS', '0')) or (os.cpu_count() or 4)


def seed():
    try:
        return int(os.environ.get('VERIF_SEED', '0'))
    except ValueError:
        return 0


def rng(prop, stream):
    """Deterministic sub-stream: sha256(seed:property:stream)."""
    h = hashlib.sha256(('%d:%s:%s' % (seed(), prop, stream)).encode()).digest()
    return random.Random(int.from_bytes(h[:8], 'big'))


def fixed_rng(prop, stream):
    """Seed-independent stream (fixed core of a check)."""
    h = hashlib.sha256(('fixed:%s:%s' % (prop, stream)).encode()).digest()
    return random.Random(int.from_bytes(h[:8], 'big'))


def sha(data):
    if isinstance(data, str):
        data = data.encode('utf-8', 'surrogateescape')
    return hashlib.sha256(data).hexdigest()[:16]


_scratch_root = None


def scratch_root():
    global _scratch_root
    if _scratch_root is None:
        base = os.environ.get('VERIF_SCRATCH') or tempfile.gettempdir()
        _scratch_root = tempfile.mkdtemp(prefix='vf-%d-' % os.getpid(), dir=base)
    return _scratch_root


def cleanup_scratch():
    global _scratch_root
    if _scratch_root and os.path.isdir(_scratch_root):
        shutil.rmtree(_scratch_root, ignore_errors=True)
    _scratch_root = None


def _init_worker(root):
    global _scratch_root
    _scratch_root = root


_wdir_counter = [0]


def case_dir(tag='c'):
    """A fresh private directory for one case (caller removes it)."""
    _wdir_counter[0] += 1
    d = os.path.join(scratch_root(), '%s-%d-%d' % (tag, os.getpid(), _wdir_counter[0]))
    os.makedirs(d)
    return d


def pmap(fn, items, jobs=None, chunksize=None):
    """Ordered parallel map with processes; fn must be a module-level function."""
    items = list(items)
    if not items:
        return []
    jobs = jobs or JOBS
    if jobs <= 1 or len(items) == 1:
        return [fn(x) for x in items]
    if chunksize is None:
        chunksize = max(1, min(64, len(items) // (jobs * 8) or 1))
    root = scratch_root()
    with ProcessPoolExecutor(max_workers=jobs, initializer=_init_worker, initargs=(root,)) as ex:
        return list(ex.map(fn, items, chunksize=chunksize))


def log(*a):
    print(*a, file=sys.stderr, flush=True)


class Timer:
    def __init__(self):
        self.t0 = time.time()

    def s(self):
        return round(time.time() - self.t0, 2)


def read_bytes(path):
    with open(path, 'rb') as f:
        return f.read()


def write_bytes(path, data):
    with open(path, 'wb') as f:
        f.write(data)
