"""Option registry: options.h (types, bounds) joined with --show-config of the fresh binary."""
import json
import os
import re
import subprocess

from .common import REPO, VERIF

_cache = {}


class Opt:
    __slots__ = ('name', 'type', 'default', 'values', 'min', 'max', 'group', 'cls')

    def __repr__(self):
        return 'Opt(%s,%s,%s)' % (self.name, self.type, self.default)


def _parse_options_h():
    txt = open(os.path.join(REPO, 'src', 'options.h'), encoding='utf-8', errors='replace').read()
    out = {}
    # extern Option<T>\nname; or extern BoundedOption<T, min, max>\nname;
    for m in re.finditer(r'extern\s+(Bounded)?Option<\s*([^>]+?)\s*>\s*\n?\s*(\w+)\s*;', txt):
        bounded, inner, name = m.group(1), m.group(2), m.group(3)
        if bounded:
            parts = [p.strip() for p in inner.split(',')]
            out[name] = (parts[0], int(parts[1]), int(parts[2]))
        else:
            out[name] = (inner.strip(), None, None)
    return out


TYPEMAP = {'true/false': 'bool', 'unsigned number': 'unsigned', 'number': 'signed', 'string': 'string'}


def _parse_show_config(binary):
    txt = subprocess.run([binary, '--show-config'], stdout=subprocess.PIPE, stderr=subprocess.DEVNULL).stdout.decode()
    opts = []
    group = ''
    lines = txt.split('\n')
    for i, line in enumerate(lines):
        if line.startswith('# ') and i >= 1 and lines[i - 1] == '#' and i + 1 < len(lines) and lines[i + 1] == '#':
            group = line[2:].strip()
        m = re.match(r'^(\w+)\s*=\s*(".*?"|\S*)\s*#\s*(.*)$', line)
        if m:
            opts.append((m.group(1), m.group(2), m.group(3).strip(), group))
    return opts


def load_classes():
    with open(os.path.join(VERIF, 'data', 'option_classes.json')) as f:
        return json.load(f)


def classify(name, table):
    for cls, spec in table.items():
        if name in spec.get('names', []):
            return cls
    for cls, spec in table.items():
        for p in spec.get('prefixes', []):
            if name.startswith(p):
                return cls
    return 'whitespace'


def options(binary):
    if binary in _cache:
        return _cache[binary]
    hdr = _parse_options_h()
    shown = _parse_show_config(binary)
    table = load_classes()
    res = []
    for name, default, tdesc, group in shown:
        o = Opt()
        o.name, o.group = name, group
        o.values = None
        o.min = o.max = None
        if tdesc in TYPEMAP:
            o.type = TYPEMAP[tdesc]
        else:
            o.values = tdesc.split('/')
            if set(o.values) == {'ignore', 'add', 'remove', 'force'} or 'not_defined' in o.values:
                o.type = 'iarf'
            elif 'lead' in tdesc or 'trail' in tdesc:
                o.type = 'tokenpos'
            else:
                o.type = 'enum'
        o.default = default[1:-1] if (o.type == 'string' and default.startswith('"')) else default
        h = hdr.get(name)
        if h is None:
            raise RuntimeError('option %s in --show-config but not in options.h' % name)
        if h[1] is not None:
            o.min, o.max = h[1], h[2]
        o.cls = classify(name, table)
        res.append(o)
    missing = set(hdr) - set(o.name for o in res)
    if missing:
        raise RuntimeError('options in options.h but not in --show-config: %s' % sorted(missing)[:5])
    _cache[binary] = res
    return res


def by_name(binary):
    return {o.name: o for o in options(binary)}


def values_for(o, full=True):
    """In-range values to sweep for one option."""
    if o.type == 'bool':
        return ['true', 'false']
    if o.values:
        return [v for v in o.values if v != 'not_defined']
    if o.type == 'unsigned':
        lo = o.min if o.min is not None else 0
        hi = o.max if o.max is not None else 200
        vals = {lo, hi, min(hi, lo + 1), min(hi, lo + 2), min(hi, lo + 3), (lo + hi) // 2}
        if o.max is None:
            vals |= {8, 40}
        return [str(v) for v in sorted(vals)]
    if o.type == 'signed':
        lo = o.min if o.min is not None else -16
        hi = o.max if o.max is not None else 16
        vals = {lo, hi, -1, 0, 1, 2, 4, (lo + hi) // 2}
        return [str(v) for v in sorted(v for v in vals if lo <= v <= hi)]
    return []


def cfg_text(assign):
    """assign: dict name -> value (strings).  Strings are quoted by the caller if needed."""
    return ''.join('%s = %s\n' % (k, v) for k, v in assign.items())
