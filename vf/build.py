"""Out-of-tree builds of /repo's working tree (hooks on), cached under .cache/."""
import fcntl
import hashlib
import os
import subprocess
import sys

from .common import CACHE, REPO, log

KINDS = {
    'plain': dict(cxx='g++', flags='-O2 -DUNCRUSTIFY_VERIF'),
    'asan': dict(cxx='clang++',
                 flags='-O1 -gline-tables-only -fno-omit-frame-pointer '
                       '-fsanitize=address,undefined -fno-sanitize-recover=all '
                       '-fno-sanitize=object-size -DUNCRUSTIFY_VERIF'),
}

_done = {}


class BuildError(Exception):
    pass


def binary(kind='plain'):
    """Build (incrementally) and return the path of the uncrustify binary of that kind."""
    if kind in _done:
        return _done[kind]
    spec = KINDS[kind]
    tag = kind if REPO == '/repo' else '%s-%s' % (kind, hashlib.sha256(REPO.encode()).hexdigest()[:8])
    bdir = os.path.join(CACHE, 'build-' + tag)
    os.makedirs(bdir, exist_ok=True)
    lock = open(os.path.join(CACHE, 'lock-' + tag), 'w')
    fcntl.flock(lock, fcntl.LOCK_EX)
    try:
        if not os.path.exists(os.path.join(bdir, 'build.ninja')):
            cmd = ['cmake', '-G', 'Ninja', '-DNoGitVersionString=ON', '-DCMAKE_BUILD_TYPE=Release',
                   '-DCMAKE_CXX_COMPILER=' + spec['cxx'],
                   '-DCMAKE_CXX_FLAGS=' + spec['flags'],
                   '-DCMAKE_CXX_FLAGS_RELEASE=', REPO]
            r = subprocess.run(cmd, cwd=bdir, stdout=subprocess.PIPE, stderr=subprocess.STDOUT)
            if r.returncode != 0:
                raise BuildError('cmake failed for %s:\n%s' % (kind, r.stdout.decode(errors='replace')[-4000:]))
        r = subprocess.run(['ninja', 'uncrustify'], cwd=bdir, stdout=subprocess.PIPE, stderr=subprocess.STDOUT)
        if r.returncode != 0:
            raise BuildError('build failed for %s:\n%s' % (kind, r.stdout.decode(errors='replace')[-6000:]))
    finally:
        fcntl.flock(lock, fcntl.LOCK_UN)
        lock.close()
    path = os.path.join(bdir, 'uncrustify')
    if not os.path.exists(path):
        raise BuildError('no binary at ' + path)
    _done[kind] = path
    return path


if __name__ == '__main__':
    for k in sys.argv[1:] or ['plain', 'asan']:
        log(k, binary(k))
