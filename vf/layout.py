"""Layout-only transformers: rewrite inter-token whitespace of a well-lexed file without touching any token, comment or literal."""
import bisect

from . import lex

HOSTILE_LEAD = ['', ' ', '\t', '  \t', ' \t ', '\t \t', '        ', '\t\t\t', '   ', ' \t\t  ']
HOSTILE_TRAIL = ['', '', ' ', '\t', '  \t ', ' \t', '    ']
WS_ONLY = ['', '', '', ' ', '\t', '   \t', '\t \t  ']


def safe_line_table(data, lang, toks=None):
    """Per physical line: (start, end, safe) - safe means the line starts outside comments/literals/directives, the previous line
    does not end inside one and does not end in a backslash, and the line itself is not a directive."""
    toks = toks if toks is not None else lex.lex(data, lang)
    info = lex.line_info(data, lang, toks)
    out = []
    for k, li in enumerate(info):
        safe = not li['inside'] and not li['pp']
        if k > 0:
            pv = info[k - 1]
            prev = data[pv['start']:pv['end']]
            if pv['pp'] or pv['tail'] in ('str', 'chr') or prev.rstrip(b' \t').endswith(b'\\'):
                safe = False
        out.append((li['start'], li['end'], safe, li))
    return out


def hostile(data, lang, r, blanks=(0, 3), p_lead=0.6, p_trail=0.5, p_blank=0.15, p_tab=0.1):
    """Return data with: leading whitespace of safe lines replaced by hostile mixes, trailing blanks appended to lines that end outside
    comments/literals, whitespace-only/blank line runs inserted before safe lines, and single blanks between tokens turned into tabs.
    Tokens, comments, literals, directives and line order are untouched.  Input must use LF terminators."""
    toks = lex.lex(data, lang)
    table = safe_line_table(data, lang, toks)
    s = data.decode('latin-1')
    # token spans to protect when converting inner blanks
    spans = [(t.start, t.end) for t in toks if t.end > t.start]
    span_starts = [a for a, _ in spans]

    def in_token(pos):
        i = bisect.bisect_right(span_starts, pos) - 1
        return i >= 0 and spans[i][0] <= pos < spans[i][1]

    out = []
    for k, (st, en, safe, li) in enumerate(table):
        line = s[st:en]
        if st >= len(s) and not line:
            break
        body = line
        if safe and body.strip(' \t'):
            if r.random() < p_blank and k > 0:
                for _ in range(r.randint(blanks[0], blanks[1])):
                    out.append(r.choice(WS_ONLY))
            if r.random() < p_lead:
                body = r.choice(HOSTILE_LEAD) + body.lstrip(' \t')
            # inner blanks -> tabs (outside tokens); offsets refer to the original line
            if r.random() < p_tab:
                chars = list(line)
                lead = len(line) - len(line.lstrip(' \t'))
                for j in range(lead, len(chars)):
                    if chars[j] == ' ' and not in_token(st + j) and r.random() < 0.3:
                        chars[j] = '\t'
                inner = ''.join(chars)[lead:]
                body = body[:len(body) - len(line.lstrip(' \t'))] + inner
        if li['tail'] is None and not li['pp'] and not body.rstrip(' \t').endswith('\\') and r.random() < p_trail:
            body = body.rstrip(' \t') + r.choice(HOSTILE_TRAIL) if body.strip(' \t') else r.choice(WS_ONLY)
        out.append(body)
    res = '\n'.join(out)
    if s.endswith('\n') and not res.endswith('\n'):
        res += '\n'
    return res.encode('latin-1')


def reindent(data, lang, r, maxcol=40):
    """Replace the leading whitespace of every safe, non-blank line by a random amount of blanks/tabs (0..maxcol columns)."""
    table = safe_line_table(data, lang)
    s = data.decode('latin-1')
    out = []
    for st, en, safe, li in table:
        line = s[st:en]
        if safe and line.strip(' \t'):
            n = r.randint(0, maxcol)
            lead = r.choice([' ' * n, '\t' * (n // 8) + ' ' * (n % 8), '\t' * (n // 4)])
            line = lead + line.lstrip(' \t')
        out.append(line)
    return '\n'.join(out).encode('latin-1')


def inject_blank_runs(data, lang, r, lo=0, hi=6, p=0.5, at_start=None, at_end=None):
    """Insert runs of lo..hi blank lines before safe lines (probability p each); optionally force a run at file start / end."""
    table = safe_line_table(data, lang)
    s = data.decode('latin-1')
    out = []
    for k, (st, en, safe, li) in enumerate(table):
        line = s[st:en]
        if st >= len(s) and not line:
            break
        if safe and k > 0 and line.strip(' \t') and r.random() < p:
            out.extend([''] * r.randint(lo, hi))
        out.append(line)
    res = '\n'.join(out)
    if s.endswith('\n') and not res.endswith('\n'):
        res += '\n'
    if at_start is not None:
        res = '\n' * at_start + res.lstrip('\n')
    if at_end is not None:
        res = res.rstrip('\n') + '\n' * at_end
    return res.encode('latin-1')
