"""Token-stream oracles shared by C02/C03/C04: own-tokenizer dumps (T stage) and the independent lexer."""
import re

from . import lex

CMT_TYPES_PREFIX = 'COMMENT'


def is_comment_chunk(c):
    return c.type.startswith(CMT_TYPES_PREFIX)


def own_chunks(T):
    """Non-comment, non-newline chunks of a T dump: [(text, in_pp)]."""
    out = []
    for c in T:
        if c.type in ('NEWLINE', 'NL_CONT', 'IGNORED') or is_comment_chunk(c) or c.text == '':
            continue
        # line terminators inside multi-line literals are normalised (C08 judges them)
        t = c.text.replace('\r\n', '\n').replace('\r', '\n')
        if c.in_pp and '\\\n' in t and not (t[:1] in '"\'' or t.startswith(('R"', 'L"', 'u"', 'U"', 'u8"'))):
            # a backslash-newline inside a directive is deleted in translation phase 2: '# \<newline> endif' is '# endif'
            t = t.replace('\\\n', '')
        if c.in_pp and c.type in ('PREPROC_BODY', 'PP_OTHER', 'PP_IGNORE') and not (t[:1] in '"\''):
            # a directive body kept as one chunk holds the blanks between its tokens: they are no characters of the token stream
            t = re.sub(r'[ \t\n]+', '', t)
        if not t:
            continue
        out.append((t, c.in_pp))
    return out


def own_boundaries(chunks):
    """Chunk texts with '>'-runs and '[]' split (template closers / array brackets may be merged or split by design)."""
    out = []
    for t, _ in chunks:
        if len(t) > 1 and set(t) == {'>'}:
            out.extend('>' * 1 for _ in t)
        elif t == '[]':
            out.extend(['[', ']'])
        elif '@' in t[1:] and t[0] not in '"\'@$' and '"' not in t:
            # uncrustify reads 'var@for' / 'public@interface' as one word; the languages lex '@' as the start of a new token
            k = t.index('@', 1)
            out.extend([t[:k], t[k:]])
        else:
            out.append(t)
    return out


def char_stream(chunks):
    return ''.join(t for t, _ in chunks)


def pp_stream(chunks):
    """Per character: inside a directive or not."""
    return ''.join(('P' if pp else '.') * len(t) for t, pp in chunks)


def gen(tok):
    """Generalise a token text for root-cause keys."""
    if re.fullmatch(r'[A-Za-z_$@\x80-￿][\w$\x80-￿]*', tok):
        return tok if tok in KEYWORDS else ('$ID' if tok[0] == '$' else 'ID')
    if re.fullmatch(r'\.?\d.*', tok):
        return 'NUM'
    if tok[:1] in '"\'' or tok[-1:] in '"\'':
        return 'STR'
    return tok


KEYWORDS = {'return', 'case', 'operator', 'class', 'struct', 'enum', 'else', 'if', 'do', 'while', 'for', 'new', 'delete', 'const', 'throw',
            'sizeof', 'typename', 'template', 'namespace', 'using', 'goto', 'default', 'switch', 'in', 'is', 'as', 'void', 'int', 'char', 'unsigned', 'long'}


def first_diff(a, b):
    i = next((k for k, (p, q) in enumerate(zip(a, b)) if p != q), min(len(a), len(b)))
    return i, a[max(0, i - 2):i + 3], b[max(0, i - 2):i + 3]


def locus_of(a, b):
    """Generalised description of the first difference between two token sequences (texts)."""
    i, wa, wb = first_diff(a, b)
    ta = [gen(x if isinstance(x, str) else x[1]) for x in a[max(0, i - 1):i + 2]]
    tb = [gen(x if isinstance(x, str) else x[1]) for x in b[max(0, i - 1):i + 2]]
    return '%s => %s' % (' '.join(ta), ' '.join(tb))


DIGRAPHS = ('<:', ':>', '<%', '%>', '%:')


def classify_change(a, b):
    """Root-cause class of the first boundary difference between token text sequences a (input) and b (output)."""
    i = next((k for k, (p, q) in enumerate(zip(a, b)) if p != q), min(len(a), len(b)))
    if i >= len(a) or i >= len(b):
        return 'length'
    ta, tb = a[i], b[i]
    if i + 1 < len(a) and tb.startswith(ta) and len(tb) > len(ta):
        t2 = a[i + 1]
        joined = ta + t2
        if (lex.PPNUM_RE.fullmatch(ta) or ta == '.') and lex.PPNUM_RE.match(joined) and lex.PPNUM_RE.match(joined).end() > len(ta):
            return 'fuse:ppnumber-continuation'
        if joined.startswith('/*') or joined.startswith('//'):
            return 'fuse:comment-start'
        if any(joined.startswith(d) and len(d) > len(ta) for d in DIGRAPHS) or any((ta[-1:] + t2[:1]) == d for d in DIGRAPHS):
            return 'fuse:digraph'
        return 'fuse:%s|%s' % (gen(ta), gen(t2))
    if ta.startswith(tb) and len(ta) > len(tb):
        if any(d in ta for d in DIGRAPHS):
            return 'split:digraph'
        return 'split:%s' % gen(ta)
    return 'other'


def well_lexed(toks):
    """No stray characters, every literal and block comment terminated, character literals short."""
    for t in toks:
        if t.kind == 'other':
            return False
        if t.kind in ('str', 'chr') and (len(t.text) < 2 or t.text[-1] not in '"\'`'):
            return False
        if t.kind == 'chr' and len(t.text) > 12:
            return False
        if t.kind == 'comment' and t.text.startswith('/*') and not (t.text.endswith('*/') and len(t.text) >= 4):
            return False
        if t.kind == 'comment' and t.text.startswith('/+') and not t.text.endswith('+/'):
            return False
    return True


def norm_nl(stream):
    return [(k, t.replace('\r\n', '\n').replace('\r', '\n') if k in ('str', 'chr') else t) for k, t in stream]


def compare(x, out, lang, Tx, Tout, strict=False):
    """-> list of (kind, locus, detail).  Tx/Tout: T-stage chunk lists of the input and of the output re-lexed."""
    res = []
    notes = []
    cx, co = own_chunks(Tx), own_chunks(Tout)
    sx, so = char_stream(cx), char_stream(co)
    if sx != so:
        i = next((k for k, (p, q) in enumerate(zip(sx, so)) if p != q), min(len(sx), len(so)))
        res.append(('chars', locus_of(own_boundaries(cx), own_boundaries(co)),
                    'non-comment character stream differs at %d: %r vs %r' % (i, sx[max(0, i - 20):i + 20], so[max(0, i - 20):i + 20])))
        return res, notes
    px, po = pp_stream(cx), pp_stream(co)
    if px != po:
        i = next((k for k, (p, q) in enumerate(zip(px, po)) if p != q), min(len(px), len(po)))
        res.append(('directive-boundary', 'near ' + gen(sx[max(0, i - 1):i + 1]),
                    'code moved %s a directive line near %r' % ('out of' if px[i] == 'P' else 'into', sx[max(0, i - 25):i + 15])))
        return res, notes
    bx, bo = own_boundaries(cx), own_boundaries(co)
    own_differs = bx != bo
    if lang in lex.CPP_CMT_SPLICE:
        # under the strict reading of translation phase 2 a '//' comment is continued only by a backslash right before the line break:
        # the output must not contain more such comments than the input (blanks stripped after the backslash would swallow the next line)
        def spliced(d):
            return sum(1 for t in lex.lex(d, lang, strict_splice=True) if t.kind == 'comment' and t.text.startswith('//') and
                       ('\n' in t.text or '\r' in t.text))
        n_in, n_out = spliced(x), spliced(out)
        if n_out > n_in:
            res.append(('lex', 'comment-splice-created', 'the output has %d // comments continued by a backslash directly before the line break, '
                        'the input %d: the line after such a comment became part of it' % (n_out, n_in)))
            return res, notes
    tx = lex.lex(x, lang, strict_splice=strict)
    lx = norm_nl(lex.code_stream(tx))
    lo = norm_nl(lex.code_stream(lex.lex(out, lang, strict_splice=strict)))
    lex_differs = lx != lo
    precise = lang in lex.PRECISE and well_lexed(tx)
    if lang == 'CS' and re.search(rb'\$@?"|@\$"', x):
        precise = False       # interpolated strings with nested quotes are beyond the independent lexer
    if lex_differs and (precise or own_differs):
        cls = classify_change([t for _, t in lx], [t for _, t in lo])
        if any((k in ('dir', 'eod')) != (k2 in ('dir', 'eod')) for (k, _), (k2, _) in zip(lx[first_diff(lx, lo)[0]:][:1], lo[first_diff(lx, lo)[0]:][:1])):
            cls = 'directive-boundary'
        res.append(('lex', cls if cls.startswith(('fuse:', 'split:', 'directive')) else locus_of(lx, lo), 'token sequence (independent lexer%s) differs: %s vs %s' % (
            ' and own tokenizer' if own_differs else '', first_diff(lx, lo)[1], first_diff(lx, lo)[2])))
    elif own_differs and not precise and lex_differs:
        pass
    elif own_differs:
        notes.append('own-tokenizer-only: %s' % locus_of(bx, bo))
    elif lex_differs:
        notes.append('independent-lexer-only: %s' % locus_of(lx, lo))
    return res, notes
