"""Helpers around configuration text: run --update-config, parse a dumped config."""
import os
import re
import shutil

from . import build, run
from .common import case_dir


def update_config(cfg_bytes, with_doc=False, extra=(), kind='plain', keep_files=None):
    """-> (Result, dump text or None).  extra: more argv (e.g. --set).  keep_files: {name: bytes} beside the cfg."""
    d = case_dir('cfg')
    try:
        p = os.path.join(d, 'k.cfg')
        with open(p, 'wb') as f:
            f.write(cfg_bytes if isinstance(cfg_bytes, bytes) else cfg_bytes.encode('utf-8', 'surrogateescape'))
        for n, b in (keep_files or {}).items():
            with open(os.path.join(d, n), 'wb') as f:
                f.write(b)
        r = run.run(build.binary(kind), ['-c', p] + list(extra) + ['--update-config-with-doc' if with_doc else '--update-config'],
                    cwd=d, kind=kind)
        r.stderr = r.stderr.replace(d.encode(), b'<DIR>')
        return r, (r.stdout.decode('utf-8', 'surrogateescape') if r.status == 0 and not r.san_report else None)
    finally:
        shutil.rmtree(d, ignore_errors=True)


OPT_LINE = re.compile(r'^(\w+)\s*=\s*(.*?)\s*$')


def parse(text):
    """Dumped config -> (values {name: raw value text}, directives [line])."""
    vals = {}
    dirs = []
    for line in text.split('\n'):
        s = line.strip()
        if not s or s.startswith('#'):
            continue
        # strip the trailing "# possible values" comment of the with-doc form (outside quotes)
        m = OPT_LINE.match(s)
        if m and re.match(r'^\w+\s*=', s):
            name, v = m.group(1), m.group(2)
            if v.startswith('"'):
                # quoted string: up to the last quote before an optional comment
                j = v.rfind('"')
                k = v.find(' #', j)
                v = v[:j + 1] if j > 0 else v
            else:
                v = v.split('#')[0].strip()
            vals[name] = v
        else:
            dirs.append(re.sub(r'\s+', ' ', s))
    return vals, dirs


def body(text):
    """The dump without its version header line and the trailing statistics comment."""
    return '\n'.join(l for l in text.split('\n') if not l.startswith('# Uncrustify') and not l.startswith('# option(s) with'))
