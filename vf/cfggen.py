"""Configuration generators: single-option sweeps, random joint draws, test-suite/etc configs filtered by class."""
import os
import re

from . import registry
from .common import REPO

WS_CLASSES = {'whitespace'}
# values that are in range but make the pinned tree spin for minutes (listed C06 findings); kept out of random draws so that
# the other properties' budgets are not spent waiting for the CPU limit
SLOW = {('code_width', lambda v: 0 < int(v) < 12), ('cmt_width', lambda v: 0 < int(v) < 8), ('nl_remove_extra_newlines', lambda v: v == '2')}


def is_slow(name, value):
    for n, pred in SLOW:
        if n == name:
            try:
                if pred(value):
                    return True
            except ValueError:
                return False
    return False


def ws_options(opts):
    return [o for o in opts if o.cls in WS_CLASSES and o.type != 'string']


def random_value(o, r):
    vals = registry.values_for(o)
    if o.type in ('unsigned', 'signed'):
        lo = o.min if o.min is not None else (0 if o.type == 'unsigned' else -16)
        hi = o.max if o.max is not None else 200
        hi = min(hi, 120)
        if r.random() < 0.5:
            return str(r.randint(lo, min(hi, lo + 8)))
        return str(r.randint(lo, hi))
    return r.choice(vals)


def joint(opts, r, n=None, pool=None):
    """Random joint assignment of n options from pool (default: whitespace class)."""
    pool = pool if pool is not None else ws_options(opts)
    n = n or r.choice([2, 3, 5, 8, 12, 20, 40])
    out = {}
    for o in r.sample(pool, min(n, len(pool))):
        v = random_value(o, r)
        if is_slow(o.name, v):
            continue
        out[o.name] = v
    return out


def text(assign):
    return ''.join('%s = %s\n' % (k, v) for k, v in sorted(assign.items()))


CURATED_WS = {
    'default': {},
    'sp_remove': None, 'sp_force': None, 'sp_add': None, 'nl_add': None, 'nl_remove': None, 'nl_force': None,
    'tabs': {'indent_with_tabs': '2', 'align_with_tabs': 'true', 'indent_columns': '8', 'output_tab_size': '8'},
    'narrow': {'code_width': '40', 'ls_func_split_full': 'true', 'ls_for_split_full': 'true', 'indent_columns': '2', 'indent_with_tabs': '0'},
    'align': {'align_assign_span': '3', 'align_var_def_span': '3', 'align_enum_equ_span': '3', 'align_struct_init_span': '3', 'align_typedef_span': '3',
              'align_right_cmt_span': '3', 'align_pp_define_span': '3', 'align_func_params': 'true', 'align_nl_cont': '1', 'align_number_right': 'true'},
    'pos': {'pos_arith': 'lead', 'pos_assign': 'trail', 'pos_bool': 'lead_break', 'pos_comma': 'lead', 'pos_conditional': 'trail_force', 'pos_compare': 'lead'},
    'pp': {'pp_indent': 'force', 'pp_indent_count': '2', 'pp_space_after': 'force', 'pp_space_count': '2', 'pp_define_at_level': 'true', 'pp_if_indent_code': 'true', 'pp_indent_at_level': 'true'},
    'blank': {'nl_max': '2', 'nl_after_func_body': '2', 'nl_before_block_comment': '2', 'eat_blanks_after_open_brace': 'true', 'eat_blanks_before_close_brace': 'true',
              'nl_start_of_file': 'remove', 'nl_end_of_file': 'force', 'nl_end_of_file_min': '1'},
}


def curated(opts, name):
    a = CURATED_WS[name]
    if a is not None:
        return dict(a)
    pref, val = name.split('_')
    out = {}
    for o in ws_options(opts):
        if o.type == 'iarf' and o.name.startswith(pref + '_'):
            out[o.name] = val
    return out


def sweep(opts, classes=None, exclude_names=()):
    """Every option of the given classes at every swept value -> [(name, value)]."""
    out = []
    for o in opts:
        if classes is not None and o.cls not in classes:
            continue
        if o.name in exclude_names or o.type == 'string':
            continue
        for v in registry.values_for(o):
            if not is_slow(o.name, v):
                out.append((o.name, v))
    return out


_cfg_cache = {}


def load_cfg_file(path):
    """Parse a config file into an assignment dict (option lines only) plus the raw text."""
    if path in _cfg_cache:
        return _cfg_cache[path]
    txt = open(path, encoding='utf-8', errors='replace').read()
    assign = {}
    for line in txt.split('\n'):
        m = re.match(r'^\s*(\w+)\s*[=\s]\s*([^#\s]+)', line)
        if m and not line.strip().startswith('#'):
            assign[m.group(1).lower()] = m.group(2)
    _cfg_cache[path] = (assign, txt)
    return _cfg_cache[path]


def file_config_in_classes(path, opts_by_name, allowed_classes):
    """True if every option the file sets away from its default belongs to the allowed classes."""
    assign, txt = load_cfg_file(path)
    if re.search(r'^\s*(include|set|type|macro-|file_ext)\b', txt, re.M):
        return False
    for k, v in assign.items():
        o = opts_by_name.get(k)
        if o is None:
            return False
        if o.cls not in allowed_classes and v.strip('"').lower() != str(o.default).lower():
            return False
    return True


# combined aggressive configurations (kept apart from CURATED_WS so that the fixed universes built on it do not move)
COMBOS = ['nl_add+pos_trail', 'nl_add+pos_lead', 'nl_remove+pos_trail', 'nl_remove+pos_lead', 'nl_force+pos_trail_force', 'nl_add+pos_lead_break',
          'nl_add+pos_trail_break', 'nl_force+pos_lead_force', 'nl_remove+pos_join', 'sp_remove+nl_remove', 'sp_force+nl_add+pos_trail']


def combo(opts, name):
    """Union of families: '<prefix>_<iarf value>' sets every IARF option of that prefix, 'pos_<value>' every token-position option."""
    out = {}
    for part in name.split('+'):
        pref, val = part.split('_', 1)
        for o in ws_options(opts):
            if pref == 'pos' and o.type == 'tokenpos' and val in (o.values or []):
                out[o.name] = val
            elif pref != 'pos' and o.type == 'iarf' and o.name.startswith(pref + '_'):
                out[o.name] = val
    return out
