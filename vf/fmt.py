"""F_K(x): format bytes with a config text, optionally collecting the hook dumps."""
import os
import shutil

from . import build, corpus, run
from .common import case_dir, scratch_root, sha


def cfg_file(text):
    """Write a config text once per content into the scratch root; return its path."""
    if isinstance(text, str):
        text = text.encode()
    p = os.path.join(scratch_root(), 'cfg-%s.cfg' % sha(text))
    if not os.path.exists(p):
        tmp = p + '.%d' % os.getpid()
        with open(tmp, 'wb') as f:
            f.write(text)
        os.replace(tmp, p)
    return p


class Chunk:
    __slots__ = ('stage', 'type', 'parent', 'line', 'col', 'col_end', 'column', 'level', 'brace_level',
                 'pp_level', 'nl_count', 'in_pp', 'inserted', 'in_qt', 'stmt_start', 'text')


def parse_dump(txt):
    """-> {'T': [Chunk], 'O': [Chunk]} for the first file of the dump."""
    out = {'T': [], 'O': []}
    fileno = 0
    for line in txt.split('\n'):
        if not line:
            continue
        if line[0] == '#':
            parts = line.split(' ', 2)
            if parts[0] == '#T':
                fileno += 1
            continue
        if fileno > 1:
            break
        f = line.split(' ')
        c = Chunk()
        c.stage = f[0]
        c.type, c.parent = f[1], f[2]
        (c.line, c.col, c.col_end, c.column, c.level, c.brace_level, c.pp_level, c.nl_count) = map(int, f[3:11])
        fl = f[11]
        c.in_pp, c.inserted, c.in_qt, c.stmt_start = fl[0] == '1', fl[1] == '1', fl[2] == '1', fl[3] == '1'
        c.text = '' if f[12] == '-' else ''.join(chr(int(h, 16)) for h in f[12].split(','))
        out[c.stage].append(c)
    return out


class SpaceRec:
    __slots__ = ('file', 'l1', 'c1', 't1', 'l2', 'c2', 't2', 'av_raw', 'av', 'forced', 'min_sp', 'delta', 'in_qt',
                 'text1', 'text2', 'rules')


def _unhex(h):
    return '' if h == '-' else ''.join(chr(int(x, 16)) for x in h.split(','))


def parse_space(txt):
    out = []
    for line in txt.split('\n'):
        if not line:
            continue
        f = line.split(' ', 15)
        if len(f) < 15:
            continue
        r = SpaceRec()
        r.file = int(f[0])
        r.l1, r.c1, r.t1 = int(f[1]), int(f[2]), f[3]
        r.l2, r.c2, r.t2 = int(f[4]), int(f[5]), f[6]
        r.av_raw, r.av, r.forced, r.min_sp, r.delta, r.in_qt = int(f[7]), int(f[8]), f[9] == '1', int(f[10]), int(f[11]), f[12] == '1'
        r.text1, r.text2 = _unhex(f[13]), _unhex(f[14])
        r.rules = f[15].split('|') if len(f) > 15 and f[15] else []
        out.append(r)
    return out


class Fmt:
    __slots__ = ('res', 'out', 'dump', 'space', 'status')


def fmt(data, lang, cfg_text, kind='plain', dump=False, space=False, extra=(), via='file', name=None, keep_dir=None):
    """Format `data`.  via: 'file' (-f) or 'stdin'.  Returns Fmt (out is None unless exit 0)."""
    d = keep_dir or case_dir('fmt')
    try:
        b = build.binary(kind)
        cfg = cfg_file(cfg_text)
        env = {}
        if dump:
            env['UNCRUSTIFY_VERIF_DUMP'] = os.path.join(d, 'dump.txt')
        if space:
            env['UNCRUSTIFY_VERIF_SPACE'] = os.path.join(d, 'space.txt')
        args = ['-q', '-c', cfg] + (['-l', lang] if lang else []) + list(extra)
        if via == 'stdin':
            res = run.run(b, args, stdin=data, cwd=d, env=env, kind=kind)
        else:
            src = os.path.join(d, name or ('in' + corpus.ext_for(lang or 'C')))
            with open(src, 'wb') as f:
                f.write(data)
            res = run.run(b, args + ['-f', src], cwd=d, env=env, kind=kind)
        r = Fmt()
        r.res = res
        r.status = res.status
        r.out = res.stdout if res.ok else None
        r.dump = None
        r.space = None
        if dump and os.path.exists(env['UNCRUSTIFY_VERIF_DUMP']):
            with open(env['UNCRUSTIFY_VERIF_DUMP'], encoding='latin-1') as f:
                r.dump = parse_dump(f.read())
        if space and os.path.exists(env['UNCRUSTIFY_VERIF_SPACE']):
            with open(env['UNCRUSTIFY_VERIF_SPACE'], encoding='latin-1') as f:
                r.space = parse_space(f.read())
        return r
    finally:
        if not keep_dir:
            shutil.rmtree(d, ignore_errors=True)
