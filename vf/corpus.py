"""The fixed universe: /repo/tests/input files with the language the .test files give them."""
import os
import re

from .common import REPO

DIR_LANG = {'c': 'C', 'cpp': 'CPP', 'cs': 'CS', 'd': 'D', 'ecma': 'ECMA', 'java': 'JAVA',
            'oc': 'OC', 'pawn': 'PAWN', 'vala': 'VALA', 'sql': 'C'}
TEST_LANG = {'c': 'C', 'cpp': 'CPP', 'c-sharp': 'CS', 'd': 'D', 'ecma': 'ECMA', 'java': 'JAVA',
             'objective-c': 'OC', 'pawn': 'PAWN', 'vala': 'VALA', 'imported': None, 'staging': None}
ALL_LANGS = ['C', 'CPP', 'D', 'CS', 'JAVA', 'PAWN', 'OC', 'OC+', 'VALA', 'ECMA']

_files = None
_tests = None


def tests():
    """[(test id, cfg relpath, input relpath, lang)] from tests/*.test."""
    global _tests
    if _tests is not None:
        return _tests
    tdir = os.path.join(REPO, 'tests')
    out = []
    for fn in sorted(os.listdir(tdir)):
        if not fn.endswith('.test'):
            continue
        base = fn[:-5]
        for line in open(os.path.join(tdir, fn), encoding='utf-8', errors='replace'):
            line = line.strip()
            if not line or line.startswith('#'):
                continue
            m = re.match(r'^(\S+?)([!~]*)\s+(\S+)\s+(\S+)(?:\s+(\S+))?$', line)
            if not m:
                continue
            lang = m.group(5) or TEST_LANG.get(base) or DIR_LANG.get(m.group(4).split('/')[0])
            out.append((base + ':' + m.group(1), m.group(3), m.group(4), lang))
    _tests = out
    return out


def files():
    """[(relpath under tests/input, lang)] sorted; language from the .test files, else the directory."""
    global _files
    if _files is not None:
        return _files
    lang_of = {}
    for _, _, inp, lang in tests():
        lang_of.setdefault(inp, lang)
    root = os.path.join(REPO, 'tests', 'input')
    out = []
    for d, _, fns in os.walk(root):
        for fn in fns:
            rel = os.path.relpath(os.path.join(d, fn), root)
            lang = lang_of.get(rel) or DIR_LANG.get(rel.split('/')[0])
            if lang:
                out.append((rel, lang))
    out.sort()
    _files = out
    return out


def path(rel):
    return os.path.join(REPO, 'tests', 'input', rel)


def read(rel):
    with open(path(rel), 'rb') as f:
        return f.read()


def test_configs():
    root = os.path.join(REPO, 'tests', 'config')
    out = []
    for d, _, fns in os.walk(root):
        for fn in fns:
            if fn.endswith('.cfg'):
                out.append(os.path.relpath(os.path.join(d, fn), root))
    out.sort()
    return out


def ext_for(lang):
    return {'C': '.c', 'CPP': '.cpp', 'D': '.d', 'CS': '.cs', 'JAVA': '.java', 'PAWN': '.pawn',
            'OC': '.m', 'OC+': '.mm', 'VALA': '.vala', 'ECMA': '.es'}[lang]
