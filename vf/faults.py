"""strace-based crash/fault injection on the real binary, and file-system snapshots."""
import os
import re
import subprocess

from . import run as runmod

LINE = re.compile(r'^(\w+)\((.*)$')


def parse_trace(path):
    """-> list of (syscall name, rest of line) in order."""
    out = []
    try:
        with open(path, errors='replace') as f:
            for line in f:
                m = LINE.match(line)
                if m:
                    out.append((m.group(1), m.group(2).rstrip('\n')))
    except FileNotFoundError:
        pass
    return out


def strace_run(binary, args, cwd, inject=(), trace_path=None, stdin=None, fsize=None, ignore_xfsz=False):
    """Run under strace with optional -e inject= specs.  Returns (Result, trace list, number of (INJECTED) marks)."""
    trace_path = trace_path or os.path.join(cwd, '..', 'trace.%d.txt' % os.getpid())
    if os.path.exists(trace_path):
        os.unlink(trace_path)
    prefix = ['strace', '-o', trace_path, '-e', 'trace=all']
    for spec in inject:
        prefix += ['-e', 'inject=' + spec]
    res = runmod.run(binary, args, cwd=cwd, prefix=prefix, stdin=stdin, fsize=fsize, ignore_xfsz=ignore_xfsz, cpu=30)
    tr = parse_trace(trace_path)
    injected = 0
    try:
        with open(trace_path, errors='replace') as f:
            injected = f.read().count('(INJECTED)')
    except FileNotFoundError:
        pass
    # strace itself exits with the tracee's status; a tracee killed by a signal makes strace re-raise it
    return res, tr, injected


def window(trace, marker):
    """Indices of trace entries from the first one whose arguments mention `marker`; with per-name occurrence numbers."""
    occ = {}
    out = []
    started = False
    for i, (name, rest) in enumerate(trace):
        occ[name] = occ.get(name, 0) + 1
        if not started and name != 'execve' and marker in rest:
            started = True
        if started and name not in ('exit_group', 'exit'):
            out.append((i, name, occ[name], rest))
    return out


def snapshot(d):
    out = {}
    for fn in sorted(os.listdir(d)):
        p = os.path.join(d, fn)
        if os.path.isfile(p):
            with open(p, 'rb') as f:
                out[fn] = f.read()
    return out
