"""Independent C-family lexer (written from the language references; shares nothing with uncrustify).

lex(data, lang) -> [Tok]; tokens carry byte offsets so that callers can classify lines.
Kinds: id num str chr hdr punct comment dir eod other
"""
import re

C_PUNCT = ['%:%:', '...', '<=>', '<<=', '>>=', '->*', '::', '++', '--', '->', '<<', '>>', '<=', '>=', '==', '!=', '&&', '||',
           '*=', '/=', '%=', '+=', '-=', '&=', '^=', '|=', '##', '.*', '<:', ':>', '<%', '%>', '%:']
JAVA_PUNCT = ['>>>=', '>>>', '<<=', '>>=', '...', '->', '::', '++', '--', '<<', '>>', '<=', '>=', '==', '!=', '&&', '||',
              '*=', '/=', '%=', '+=', '-=', '&=', '^=', '|=']
CS_PUNCT = ['<<=', '>>=', '??=', '...', '??', '?.', '=>', '->', '::', '++', '--', '<<', '>>', '<=', '>=', '==', '!=', '&&', '||',
            '*=', '/=', '%=', '+=', '-=', '&=', '^=', '|=', '..']
GENERIC_PUNCT = ['>>>=', '!==', '===', '>>>', '<<=', '>>=', '^^=', '**=', '...', '!<>=', '<>=', '!<>', '!<=', '!>=', '=>', '->', '::', '++', '--', '<<', '>>',
                 '<=', '>=', '==', '!=', '&&', '||', '*=', '/=', '%=', '+=', '-=', '&=', '^=', '|=', '~=', '..', '^^', '**', '??', '?.', '<>', '!<', '!>', '##']
CONLY_PUNCT = [p for p in C_PUNCT if p not in ('<=>', '->*', '.*', '::')]
TABLES = {'C': CONLY_PUNCT, 'CPP': C_PUNCT, 'OC': CONLY_PUNCT, 'OC+': C_PUNCT, 'JAVA': JAVA_PUNCT, 'CS': CS_PUNCT}
PRECISE = {'C', 'CPP', 'OC', 'OC+', 'JAVA', 'CS'}
HASH_DIRECTIVES = {'C', 'CPP', 'OC', 'OC+', 'CS', 'PAWN', 'VALA', 'D'}
CPP_CMT_SPLICE = {'C', 'CPP', 'OC', 'OC+'}

_by_len = {}


def table(lang):
    t = TABLES.get(lang, GENERIC_PUNCT)
    key = id(t)
    if key not in _by_len:
        _by_len[key] = sorted(t, key=len, reverse=True)
    return _by_len[key]


class Tok:
    __slots__ = ('kind', 'text', 'start', 'end', 'line', 'in_dir')

    def __init__(self, kind, text, start, end, line, in_dir=False):
        self.kind, self.text, self.start, self.end, self.line, self.in_dir = kind, text, start, end, line, in_dir

    def __repr__(self):
        return '%s(%r@%d)' % (self.kind, self.text, self.line)


ID_START = re.compile(r'[A-Za-z_$\x80-\xff]')
ID_RE = re.compile(r'[A-Za-z_$\x80-\xff][A-Za-z0-9_$\x80-\xff]*')
PPNUM_RE = re.compile(r"\.?[0-9](?:[eEpP][+-]|'[0-9A-Za-z_]|[0-9A-Za-z_.])*")
NL_RE = re.compile(r'\r\n|\r|\n')
STR_PREFIX = re.compile(r'(?:u8|u|U|L)?(R)?"')
CHR_PREFIX = re.compile(r"(?:u8|u|U|L)?'")


def lex(data, lang='C', strict_splice=False):
    """data: bytes.  Returns the token list (comments included, whitespace excluded)."""
    s = data.decode('latin-1')
    n = len(s)
    toks = []
    punct = table(lang)
    i = 0
    line = 1
    at_bol = True
    in_dir = False
    dir_words = 0
    dir_name = None
    hash_dir = lang in HASH_DIRECTIVES
    splice_cmt = lang in CPP_CMT_SPLICE

    def count_nl(a, b):
        return len(NL_RE.findall(s, a, b))

    def add(kind, a, b):
        nonlocal line
        toks.append(Tok(kind, s[a:b], a, b, line, in_dir))
        line += count_nl(a, b)

    while i < n:
        c = s[i]
        if c in ' \t\f\v':
            i += 1
            continue
        if c == '\r' or c == '\n':
            j = i + 2 if s.startswith('\r\n', i) else i + 1
            if in_dir:
                toks.append(Tok('eod', '', i, i, line, True))
                in_dir = False
            line += 1
            at_bol = True
            i = j
            continue
        if c == '\\':
            # translation phase 2: backslash + line break; compilers (and uncrustify) also accept blanks in between unless strict
            m = re.compile(r'\\(\r\n|\r|\n)' if strict_splice else r'\\[ \t]*(\r\n|\r|\n)').match(s, i)
            if m:
                line += 1
                i = m.end()
                continue
        was_bol = at_bol
        at_bol = False
        # comments
        if c == '/' and i + 1 < n:
            d = s[i + 1]
            if d == '/':
                j = i + 2
                while j < n:
                    if s[j] in '\r\n':
                        if splice_cmt:
                            # a backslash before the newline continues the comment (blanks in between allowed unless strict)
                            k = j - 1
                            while not strict_splice and k > i and s[k] in ' \t':
                                k -= 1
                            if s[k] == '\\':
                                j = j + 2 if s.startswith('\r\n', j) else j + 1
                                continue
                        break
                    j += 1
                add('comment', i, j)
                i = j
                continue
            if d == '*':
                j = s.find('*/', i + 2)
                j = n if j < 0 else j + 2
                add('comment', i, j)
                i = j
                continue
            if d == '+' and lang == 'D':
                depth = 1
                j = i + 2
                while j < n and depth:
                    if s.startswith('/+', j):
                        depth += 1
                        j += 2
                    elif s.startswith('+/', j):
                        depth -= 1
                        j += 2
                    else:
                        j += 1
                add('comment', i, j)
                i = j
                continue
        # directive start
        if c == '#' and was_bol and hash_dir and not in_dir:
            in_dir = True
            dir_words = 0
            dir_name = None
            toks.append(Tok('dir', '', i, i, line, True))
            add('punct', i, i + 1)
            i += 1
            continue
        # header name after #include / #import
        if in_dir and dir_name in ('include', 'import', 'include_next') and dir_words == 1 and c == '<':
            j = i + 1
            while j < n and s[j] not in '>\r\n':
                j += 1
            if j < n and s[j] == '>':
                add('hdr', i, j + 1)
                i = j + 1
                dir_words += 1
                continue
        # numbers (before identifiers: 1'000, .5)
        if '0' <= c <= '9' or (c == '.' and i + 1 < n and '0' <= s[i + 1] <= '9'):
            m = PPNUM_RE.match(s, i)
            add('num', i, m.end())
            i = m.end()
            continue
        # string / char literals with prefixes
        if c == '"' or c == "'" or c in 'uULR@$r`xq':
            r = _literal(s, i, n, lang)
            if r:
                kind, j = r
                add(kind, i, j)
                i = j
                if in_dir:
                    dir_words += 1
                continue
        if ID_START.match(c):
            m = ID_RE.match(s, i)
            if in_dir and dir_words == 0:
                dir_name = m.group(0)
            if in_dir:
                dir_words += 1
            add('id', i, m.end())
            i = m.end()
            continue
        # punctuators: maximal munch
        for p in punct:
            if s.startswith(p, i):
                if p == '?.' and i + 2 < n and '0' <= s[i + 2] <= '9':
                    continue
                if p == '<:' and s.startswith('<::', i) and not s.startswith('<:::', i) and not s.startswith('<::>', i):
                    continue     # C++11 [lex.pptoken]: '<::' not followed by ':' or '>' is '<' '::'
                add('punct', i, i + len(p))
                i += len(p)
                break
        else:
            add('punct' if not c.isalnum() and ord(c) < 128 and c > ' ' else 'other', i, i + 1)
            i += 1
    if in_dir:
        toks.append(Tok('eod', '', n, n, line, True))
    return toks


def _literal(s, i, n, lang):
    """Recognise a string/char literal starting at i (incl. prefix).  -> (kind, end) or None."""
    c = s[i]
    # C# verbatim / interpolated, ObjC @"..", Vala @".."
    if c in '@$':
        j = i
        while j < n and s[j] in '@$' and j - i < 2:
            j += 1
        if j < n and s[j] == '"':
            pre = s[i:j]
            if '@' in pre and lang == 'CS':
                k = j + 1
                while k < n:
                    if s[k] == '"':
                        if k + 1 < n and s[k + 1] == '"':
                            k += 2
                            continue
                        return ('str', k + 1)
                    k += 1
                return ('str', n)
            if lang in ('CS', 'OC', 'OC+', 'VALA', 'CPP', 'C'):
                if lang == 'VALA' and s.startswith('"""', j):
                    k = s.find('"""', j + 3)
                    return ('str', n if k < 0 else k + 3)
                return ('str', _quoted(s, j, n, '"', lang))
        if c == '@' and j < n and s[j] == "'" and lang in ('OC', 'OC+'):
            return ('chr', _quoted(s, j, n, "'", lang))
        return None
    if c == '`':
        if lang in ('D', 'ECMA'):
            k = s.find('`', i + 1)
            return ('str', n if k < 0 else k + 1)
        return None
    if c == 'r' and lang == 'D' and i + 1 < n and s[i + 1] == '"':
        k = s.find('"', i + 2)
        return ('str', n if k < 0 else k + 1)
    if c == 'x' and lang == 'D' and i + 1 < n and s[i + 1] == '"':
        return ('str', _quoted(s, i + 1, n, '"', lang))
    if c == 'q' and lang == 'D' and i + 1 < n and s[i + 1] == '"':
        return ('str', _d_delimited(s, i, n))
    if c in 'rxq':
        return None
    if c in 'uULR':
        if lang not in ('C', 'CPP', 'OC', 'OC+'):
            return None
        m = STR_PREFIX.match(s, i)
        if m:
            if m.group(1) and lang not in ('CPP', 'OC+'):
                return None                                  # raw strings are C++ only: 'R' is an identifier elsewhere
            if m.group(1):
                q = m.end()
                k = s.find('(', q)
                if k < 0 or k - q > 16 or re.search(r'[\s\\)]', s[q:k]):
                    return ('str', _quoted(s, q - 1, n, '"', lang))
                delim = ')' + s[q:k] + '"'
                e = s.find(delim, k + 1)
                return ('str', n if e < 0 else e + len(delim))
            return ('str', _quoted(s, m.end() - 1, n, '"', lang))
        m = CHR_PREFIX.match(s, i)
        if m:
            return ('chr', _quoted(s, m.end() - 1, n, "'", lang))
        return None
    if c == '"':
        if lang in ('JAVA', 'VALA', 'CS') and s.startswith('"""', i):
            k = s.find('"""', i + 3)
            # C# raw strings and Java text blocks: end at the closing triple quote (longer quote runs are rare)
            return ('str', n if k < 0 else k + 3)
        return ('str', _quoted(s, i, n, '"', lang))
    if c == "'":
        return ('str' if lang == 'ECMA' else 'chr', _quoted(s, i, n, "'", lang))
    return None


def _quoted(s, q, n, quote, lang):
    """s[q] is the opening quote; returns the end offset (after the closing quote, or at end of line when unterminated)."""
    k = q + 1
    esc = '^\\' if lang == 'PAWN' else '\\'
    while k < n:
        ch = s[k]
        if ch in esc and k + 1 < n:
            if s[k + 1] == '\r' and k + 2 < n and s[k + 2] == '\n':
                k += 3
            else:
                k += 2
            continue
        if ch == quote:
            return k + 1
        if ch in '\r\n' and not (lang == 'D' and quote == '"'):
            return k           # (D string literals may span lines)
        k += 1
    return n


def _d_delimited(s, i, n):
    k = i + 2
    if k >= n:
        return n
    o = s[k]
    pairs = {'(': ')', '[': ']', '{': '}', '<': '>'}
    if o in pairs:
        depth = 0
        while k < n:
            if s[k] == o:
                depth += 1
            elif s[k] == pairs[o]:
                depth -= 1
                if depth == 0:
                    e = s.find('"', k)
                    return n if e < 0 else e + 1
            k += 1
        return n
    e = s.find(o + '"', k + 1)
    return n if e < 0 else e + 2


# ---------------------------------------------------------------------------------------------
# views used by the oracles

def code_stream(toks, split_gt=True):
    """Non-comment tokens as (kind, text) with directive brackets; '>'-runs split (template closers may be re-spaced)."""
    out = []
    for t in toks:
        if t.kind == 'comment':
            continue
        if t.kind in ('dir', 'eod'):
            out.append((t.kind, ''))
            continue
        if split_gt and t.kind == 'punct' and len(t.text) > 1 and set(t.text) == {'>'}:
            out.extend(('tok', '>') for _ in t.text)
            continue
        out.append((t.kind if t.kind in ('str', 'chr', 'hdr') else 'tok', t.text))
    return out


def comments(toks):
    return [t for t in toks if t.kind == 'comment']


def literals(toks):
    return [t for t in toks if t.kind in ('str', 'chr', 'hdr')]


def line_starts(data):
    """Byte offsets at which each physical line starts."""
    out = [0]
    for m in NL_RE.finditer(data.decode('latin-1')):
        out.append(m.end())
    return out


def line_info(data, lang, toks=None):
    """Per physical line: dict(start, end (offset of the terminator), inside (kind of a comment/literal token that
    begins on an earlier line and covers the line start), tail (kind of the token covering the line end), pp (inside a directive))."""
    toks = toks if toks is not None else lex(data, lang)
    s = data.decode('latin-1')
    starts = line_starts(data)
    ends = []
    for k, st in enumerate(starts):
        m = NL_RE.search(s, st)
        ends.append(m.start() if m else len(s))
    info = [dict(start=starts[k], end=ends[k], inside=None, tail=None, pp=False) for k in range(len(starts))]
    import bisect
    for t in toks:
        if t.kind in ('comment', 'str', 'chr') and t.end > t.start:
            a = bisect.bisect_right(starts, t.start) - 1
            b = bisect.bisect_right(starts, max(t.start, t.end - 1)) - 1
            for k in range(a + 1, b + 1):
                info[k]['inside'] = t.kind
            for k in range(a, b + 1):
                if t.start <= ends[k] <= t.end and (ends[k] < t.end or t.end == ends[k] and t.kind == 'comment' and s.startswith('//', t.start)):
                    info[k]['tail'] = t.kind
        if t.kind == 'dir':
            a = bisect.bisect_right(starts, t.start) - 1
            info[a]['pp'] = True
            info[a]['pp_first'] = True
    # continuation lines of directives
    cur = None
    for t in toks:
        if t.kind == 'dir':
            cur = t
        elif t.kind == 'eod' and cur is not None:
            a = bisect.bisect_right(starts, cur.start) - 1
            b = bisect.bisect_right(starts, max(cur.start, t.start)) - 1
            for k in range(a, min(b, len(info) - 1) + 1):
                info[k]['pp'] = True
            cur = None
    return info
