"""ddmin over a configuration assignment: smallest sub-assignment that still satisfies the predicate (bounded runs)."""


def minimise_cfg(assign, pred, max_runs=80):
    items = sorted(assign.items())
    runs = [0]

    def test(sub):
        if runs[0] >= max_runs:
            return False
        runs[0] += 1
        return pred(dict(sub))

    if test([]):
        return {}
    n = 2
    while len(items) >= 2 and runs[0] < max_runs:
        chunk = max(1, len(items) // n)
        subsets = [items[i:i + chunk] for i in range(0, len(items), chunk)]
        reduced = False
        for sub in subsets:
            if test(sub):
                items = sub
                n = 2
                reduced = True
                break
        if not reduced:
            for sub in subsets:
                comp = [x for x in items if x not in sub]
                if comp and test(comp):
                    items = comp
                    n = max(n - 1, 2)
                    reduced = True
                    break
        if not reduced:
            if n >= len(items):
                break
            n = min(len(items), n * 2)
    if len(items) == 1 and test([]):
        items = []
    # 1-minimal pass: drop single options while the predicate still holds
    changed = True
    while changed and len(items) > 1 and runs[0] < max_runs:
        changed = False
        for x in list(items):
            comp = [y for y in items if y != x]
            if test(comp):
                items = comp
                changed = True
                break
    return dict(items)
