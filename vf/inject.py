"""Token-level injectors working on well-lexed corpus files (positions come from the independent lexer)."""
from . import lex

BLOCK_COMMENTS = ['/* c%d */', '/*c%d*/', '/** doc %d */', '/*! q%d */', '/* a\tb %d  */', '/* not-end * / %d */', '/* \xc3\xa4\xe2\x82\xac %d */',
                  '/*\n * line one %d\n * line two\n */', '/*\n   plain %d\n      deeper\n   back\n*/', '/* one %d\n   two */',
                  '/**\n  * doxy %d\n  * @param x  y\n  */', '/* trailing %d   \n   blanks   \n */', '/*%d\n*/']
LINE_COMMENTS = ['// l%d', '//l%d', '/// doc %d', '//! q%d', '// a\tb %d', '//   spaced   %d   x', '// \xc3\xa4 %d', '// ends with backslash-free %d']
CONT_COMMENTS = ['// first %d \\\n   second line \\\n   third', '// a %d \\\n// b']
STRINGS = ['"s%d"', '"a\tb %d"', '"  lead %d"', '"trail %d  "', '"q\\"uote %d"', '"\xc3\xa4\xe2\x82\xac %d"', '"/* no comment %d */"', '"// no %d"', '"%%d %d\\n"',
           '"tab\t\ttab %d"', '"a \\\nb %d"']
RAW_STRINGS = ['R"(raw %d)"', 'R"x(a\n   b  \n\tc %d)x"', 'R"d(")" %d)d"', 'u8R"(u8 %d)"', 'LR"(wide\n%d)"',
               'R"ab(x )ac"   "   y %d )ab"', 'R"tag(a )tab"  ,  "  b %d)tag"']
CHARS = ["'c'", "'\\''", "'\\t'", "'\t'", "' '", "L'x'", "'\\\\'"]


def boundaries(toks):
    """Indices i such that a comment may be inserted before toks[i] (never inside a directive's first two tokens)."""
    out = []
    for i, t in enumerate(toks):
        if t.kind in ('dir', 'eod'):
            continue
        if i > 0 and toks[i - 1].kind == 'dir':
            continue            # between '#' marker and '#'
        if i > 1 and toks[i - 2].kind == 'dir':
            continue            # between '#' and the directive name
        out.append(i)
    return out


def inject_comments(data, lang, r, count=None, allow_cont=True):
    """Insert `count` comments at random token boundaries of a well-lexed file.  Returns (new bytes, inserted texts in order) or None."""
    toks = lex.lex(data, lang)
    b = boundaries(toks)
    if len(b) < 4:
        return None
    count = count or r.randint(3, 12)
    picks = sorted(r.sample(b, min(count, len(b))))
    s = data.decode('latin-1')
    out = []
    pos = 0
    n = 0
    for i in picks:
        t = toks[i]
        out.append(s[pos:t.start])
        n += 1
        in_dir = t.in_dir
        kind = r.random()
        if in_dir:
            txt = r.choice(BLOCK_COMMENTS[:7]) % n            # single-line block comments only inside a directive
            out.append(txt + ' ')
        elif kind < 0.55:
            txt = r.choice(BLOCK_COMMENTS) % n
            out.append(txt + r.choice([' ', '\n', '']))
        elif kind < 0.9 or not allow_cont or lang not in ('C', 'CPP', 'OC', 'OC+'):
            txt = r.choice(LINE_COMMENTS) % n
            out.append(txt + '\n')
        else:
            txt = r.choice(CONT_COMMENTS) % n
            out.append(txt + '\n')
        pos = t.start
    out.append(s[pos:])
    return ''.join(out).encode('latin-1')


def replace_literals(data, lang, r, frac=0.5):
    """Replace a fraction of the string/char literals by hostile ones of the same kind."""
    toks = lex.lex(data, lang)
    s = data.decode('latin-1')
    out = []
    pos = 0
    n = 0
    for t in toks:
        if t.kind not in ('str', 'chr') or t.in_dir or r.random() > frac:
            continue
        if t.kind == 'str' and not t.text.startswith('"'):
            continue
        n += 1
        if t.kind == 'chr':
            new = r.choice(CHARS)
        elif lang in ('CPP', 'OC+') and r.random() < 0.3:
            new = r.choice(RAW_STRINGS) % n
        else:
            new = r.choice(STRINGS[:-1] if lang not in ('C', 'CPP', 'OC', 'OC+') else STRINGS) % n
        out.append(s[pos:t.start])
        out.append(new)
        pos = t.end
    if n == 0:
        return None
    out.append(s[pos:])
    return ''.join(out).encode('latin-1')
